"""C14 — nodes that disagree about the data refuse to answer (DigestGate.tla / DigestGateTrace.tla)."""
import concurrent.futures as cf
import copy, json, os, random, shutil
import vlib
from vlib import run_tlc, tlc_must_pass, qev, write_ndjson, read_ndjson, validate_trace

LEVEL = "model_checking"
MUT_KINDS = ["rename", "rowplus", "bytesplus", "rgplus", "rgminus", "fileplus", "fileminus"]
SAME_KINDS = ["same", "same-moved", "same-perm"]
CASE_KEYS = ("cid", "kind", "init", "work", "n", "idx", "tamper", "viadir", "probe", "expect")

def vacuity(ctx, msg):
    """A coverage hole is a tool error - unless the run already found violations: a defect may be the very
    reason a class of outcomes disappeared, and the verdict must not be masked by the guard."""
    if ctx.violations:
        ctx.notes.append("vacuity guard not enforced because violations were found: " + msg)
        return
    raise vlib.ToolError(msg)



def to_spec(files, rs, ws, onedir=False):
    return [{"name": f["name"], "dir": 1 if onedir else f["dir"],
             "rgs": [{"rows": g["rows"] * rs, "w": g["bytes"] * ws} for g in f["rgs"]]} for f in files]


def idx_class(c):
    return "absent" if c["idx"] < 0 else "in" if c["idx"] < c["n"] else "n" if c["idx"] == c["n"] else "beyond"


def pick_cases(cases, rng, per_stratum):
    strata = {}
    for c in cases:
        strata.setdefault((c["kind"], idx_class(c), c["n"]), []).append(c)
    out = []
    for key in sorted(strata):
        lst = strata[key]
        lst.sort(key=lambda c: json.dumps(c, sort_keys=True))
        # favour pairs with rows on the initiator side (an empty table is the dull corner)
        rich = [c for c in lst if sum(g["rows"] for f in c["init"] for g in f["rgs"]) >= 2]
        pool = rich if len(rich) >= per_stratum else lst
        out += rng.sample(pool, min(per_stratum, len(pool)))
    return out


def build_inputs(picked, rng):
    recs = []
    cid = 0
    for c in picked:
        rs, ws = rng.choice([(1, 1), (1, 8), (7, 1), (37, 8)])
        cid += 1
        work = to_spec(c["work"], rs, ws)
        if c["kind"] == "same-perm":
            # directory order opposite to name order (a canonical order by path instead of by name shows here)
            work = [dict(f, dir=60 - f["dir"]) for f in work]
        recs.append({"cid": cid, "kind": c["kind"], "init": to_spec(c["init"], rs, ws), "work": work,
                     "n": c["n"], "idx": c["idx"], "tamper": 0, "viadir": 0, "expect": c["expect"]})
        # the same pair through the plain register_parquet(directory) path (one directory per copy)
        if cid % 4 == 0 and c["kind"] != "same-perm" and c["work"]:
            cid += 1
            recs.append({"cid": cid, "kind": c["kind"], "init": to_spec(c["init"], rs, ws, True), "work": to_spec(c["work"], rs, ws, True),
                         "n": c["n"], "idx": c["idx"], "tamper": 0, "viadir": 1, "expect": c["expect"]})
        # ordering probe: a statement whose own error would surface if it were executed before the gate
        if idx_class(c) == "in" and cid % 2 == 0:
            cid += 1
            recs.append({"cid": cid, "kind": c["kind"], "init": to_spec(c["init"], rs, ws), "work": to_spec(c["work"], rs, ws),
                         "n": c["n"], "idx": c["idx"], "tamper": 0, "viadir": 0, "probe": 1, "expect": "refused"})
        # identical copies, but the request does not carry the initiator's digest
        if c["kind"] in SAME_KINDS and idx_class(c) == "in" and cid % 3 == 0:
            cid += 1
            recs.append({"cid": cid, "kind": "tampered", "init": to_spec(c["init"], rs, ws), "work": to_spec(c["work"], rs, ws),
                         "n": c["n"], "idx": c["idx"], "tamper": rng.choice([1, 2, 255, 1 << 40]), "viadir": 0, "probe": cid % 2, "expect": "refused"})
    # handcrafted: same byte size, different row count (only num_rows tells the copies apart)
    a = [{"name": 1, "dir": 1, "rgs": [{"rows": 4, "w": 8}]}]
    b = [{"name": 1, "dir": 1, "rgs": [{"rows": 5, "w": 4}]}]
    for n, idx, probe in ((1, 0, 0), (2, 0, 0), (2, 1, 1)):
        cid += 1
        recs.append({"cid": cid, "kind": "rowplus", "init": a, "work": b, "n": n, "idx": idx, "tamper": 0, "viadir": 0, "probe": probe,
                     "expect": "refused", "equal_bytes": 1})
    return recs


def run_real(ctx, recs, tag):
    inp = os.path.join(ctx.work, f"{tag}.in.ndjson")
    outp = os.path.join(ctx.work, f"{tag}.out.ndjson")
    files = os.path.join(ctx.work, f"{tag}.files")
    shutil.rmtree(files, ignore_errors=True)
    write_ndjson(inp, recs)
    try:
        qev(["gate-replay", inp, outp, files], timeout=3000)
    finally:
        shutil.rmtree(files, ignore_errors=True)
    outs = read_ndjson(outp)
    if len(outs) != len(recs):
        raise vlib.ToolError("gate-replay returned a different number of records")
    for o in outs:
        if o["outcome"] == "setup_error":
            raise vlib.ToolError(f"gate-replay could not set up case {o['cid']}: {o.get('err')}")
    return outs


def trace_rec(o):
    return {"cid": o["cid"], "kind": o["kind"], "init": o["init"], "work": o["work"], "n": o["n"], "idx": o["idx"],
            "tamper": 1 if o["tamper"] else 0, "outcome": o["outcome"], "ids": o.get("ids", []), "init_ids": o.get("init_ids", []),
            "init_has": o.get("init_has", 0), "digest_eq": o.get("digest_eq", 0), "probe": o.get("probe", 0),
            "ran_sql": o.get("ran_sql", 0)}


def tlc_judge(ctx, outs, name):
    """DigestGateTrace over the exchanges; returns (rejected indices, drift list)."""
    bad, drifts = [], []
    rest, base = [trace_rec(o) for o in outs], 0
    path = os.path.join(ctx.work, f"{name}.ndjson")
    while rest:
        write_ndjson(path, rest)
        ok, rej, res = validate_trace("DigestGateTrace", "DigestGateTrace.cfg", path, timeout=3000, heap="4g", tag=f"C14-{name}")
        ctx.tlc_stats(res, f"DigestGateTrace over {len(rest)} fragment exchanges on the real code")
        upto = len(rest) if ok else rej["line"] - 1
        for k, r in res.prints:
            if k == "DRIFT" and r["line"] <= upto + (0 if ok else 0):
                drifts.append((base + r["line"] - 1, r["what"]))
        if ok:
            break
        i = rej["line"] - 1
        bad.append(base + i)
        base += i + 1
        rest = rest[i + 1:]
        if len(bad) >= 8:
            break
    return bad, sorted(set(drifts))


def content_key(files):
    vis = []
    for f in files:
        v = tuple((j, g["rows"], g["bytes"]) for j, g in enumerate(f["rgs"]) if g["rows"] > 0)
        if v:
            vis.append((f["name"], v))
    return tuple(sorted(vis))


# ------------------------------------------------------------------ histories on ONE long-lived pair of contexts
def hist_pattern(h):
    """Shape of a TLC history: per step who was rewritten, whether the copies agree, the expected outcome,
    and whether the shard count repeats an earlier one."""
    seen, pat = [], []
    for st in h["steps"]:
        who = st["kind"].split("-")[0] if "-" in st["kind"] else ("start" if not seen else "unchanged")
        pat.append((who, st["same"], st["expect"], st["n"] in seen))
        seen.append(st["n"])
    return tuple(pat)


def pick_histories(hists, rng, per_pattern, cap):
    strata = {}
    for h in hists:
        strata.setdefault(hist_pattern(h), []).append(h)
    out = []
    for key in sorted(strata):
        lst = sorted(strata[key], key=lambda h: json.dumps(h, sort_keys=True))
        rich = [h for h in lst if sum(g["rows"] for f in h["steps"][0]["init"] for g in f["rgs"]) >= 1]
        pool = rich if len(rich) >= per_pattern else lst
        out += rng.sample(pool, min(per_pattern, len(pool)))
    rng.shuffle(out)
    # the shapes the property is about are always present: answered -> rewritten -> refused, refused -> fixed -> answered
    def some(pred, k):
        lst = sorted((h for h in hists if pred(h) and sum(g["rows"] for f in h["steps"][0]["init"] for g in f["rgs"]) >= 1),
                     key=lambda h: json.dumps(h, sort_keys=True))
        return rng.sample(lst, min(k, len(lst)))
    key_first = some(stale_shape, max(30, cap // 6)) + some(fixed_shape, max(30, cap // 6))
    return (key_first + out)[:cap]


def stale_shape(h):
    """answered while the copies agree, then a copy is rewritten, then the SAME shard count is asked again
    with a valid index and must be refused"""
    st = h["steps"]
    return any(st[i]["expect"] == "ran" and st[j]["expect"] == "refused" and st[j]["same"] == 0 and st[j]["n"] == st[i]["n"]
               and 0 <= st[j]["idx"] < st[j]["n"] for i in range(len(st)) for j in range(i + 1, len(st)))


def fixed_shape(h):
    """refused while the copies differ, then a copy is brought in line, then the same shard count must be answered"""
    st = h["steps"]
    return any(st[i]["expect"] == "refused" and st[i]["same"] == 0 and 0 <= st[i]["idx"] < st[i]["n"] and st[j]["expect"] == "ran"
               and st[j]["n"] == st[i]["n"] for i in range(len(st)) for j in range(i + 1, len(st)))


def build_histories(picked, rng):
    out = []
    for hid, h in enumerate(picked, 1):
        rs, ws = rng.choice([(1, 1), (1, 8), (7, 1), (37, 8)])
        viadir = hid % 2
        steps = []
        for k, st in enumerate(h["steps"]):
            steps.append({"kind": st["kind"], "init": to_spec(st["init"], rs, ws, viadir == 1), "work": to_spec(st["work"], rs, ws, viadir == 1),
                          "n": st["n"], "idx": st["idx"], "probe": 1 if (hid % 3 == 0 and k > 0 and st["expect"] == "refused") else 0,
                          "expect": st["expect"]})
        out.append({"hid": hid, "viadir": viadir, "steps": steps})
    return out


def run_histories(ctx, hists, tag):
    inp = os.path.join(ctx.work, f"{tag}.in.ndjson")
    outp = os.path.join(ctx.work, f"{tag}.out.ndjson")
    files = os.path.join(ctx.work, f"{tag}.files")
    shutil.rmtree(files, ignore_errors=True)
    write_ndjson(inp, hists)
    try:
        qev(["gate-history", inp, outp, files], timeout=3000)
    finally:
        shutil.rmtree(files, ignore_errors=True)
    outs = read_ndjson(outp)
    if len(outs) != sum(len(h["steps"]) for h in hists):
        raise vlib.ToolError("gate-history returned a different number of records")
    for o in outs:
        if o["outcome"] == "setup_error":
            raise vlib.ToolError(f"gate-history could not set up history {o['hid']}: {o.get('err')}")
        o["cid"] = o["hid"] * 10 + o["step"]
        o["tamper"] = 0
    return outs


def judge_histories(ctx, hists, outs, name, pre=None):
    """Every step of every history is one exchange judged by DigestGateTrace against the footers as they were at
    that step; a rejected step is reported with its whole history (the replay re-runs the history)."""
    bad, drifts = pre if pre is not None else tlc_judge(ctx, outs, name)
    by_hid = {h["hid"]: h for h in hists}
    for i in bad:
        o = outs[i]
        same = content_key(o["init"]) == content_key(o["work"])
        why = (f"history step {o['step']} ({o['kind']}): execute_fragment "
               f"{'ran the statement of' if o.get('ran_sql') and o['outcome'] != 'answered' else o['outcome']} shard {o['idx']} of {o['n']} on a "
               f"long-lived worker context although "
               + ("the shard index is out of range" if same else
                  f"the worker's files as they are now ({o['work']}) differ from the initiator's ({o['init']}); rows returned {o.get('ids')[:6]}"))
        ctx.violation({"hist": by_hid[o["hid"]], "step": o["step"]}, why)
    for i, what in drifts:
        key = {"false-refusal": "hist_false_refusals", "other-rows": "hist_foreign_findings_answered_other_rows", "panic": "panics"}[what]
        ctx.add(key)
        if ctx.cov.get(key, 0) <= 3:
            ctx.notes.append(f"fidelity ({what}) in history {outs[i]['hid']} step {outs[i]['step']} ({outs[i]['kind']}): "
                             f"outcome {outs[i]['outcome']} {outs[i].get('err')}; ids {outs[i].get('ids')[:5]} vs initiator's {outs[i].get('init_ids')[:5]}")
    ctx.add("traces_validated_against_impl", len(outs) - len(bad))
    return bad


def judge_all(ctx, recs, outs, name, pre=None):
    bad, drifts = pre if pre is not None else tlc_judge(ctx, outs, name)
    for i in bad:
        o = outs[i]
        same = content_key(o["init"]) == content_key(o["work"])
        why = (f"execute_fragment {'ran the statement of' if o.get('ran_sql') and o['outcome'] != 'answered' else o['outcome']} shard {o['idx']} of {o['n']} although "
               + ("the request did not carry the initiator's digest" if o["tamper"] else
                  "the shard index is out of range" if same else
                  f"the worker's copy differs from the initiator's ({o['kind']}): answered over rows {o.get('ids')[:6]}..."))
        ctx.violation({k: recs[i][k] for k in CASE_KEYS if k in recs[i]}, why)
    for i, what in drifts:
        if what == "false-refusal":
            ctx.add("false_refusals")
            if ctx.cov.get("false_refusals", 0) <= 3:
                ctx.notes.append(f"fidelity: fragment refused although the copies agree and the index is valid: case {recs[i]['cid']} {outs[i].get('err')}")
        elif what == "other-rows":
            ctx.add("foreign_findings_answered_other_rows")
            if ctx.cov.get("foreign_findings_answered_other_rows", 0) <= 3:
                ctx.notes.append(f"foreign (C13): copies agree, digest agrees, but the shard returned other rows than the initiator attributes to it: case {recs[i]['cid']}")
        elif what == "panic":
            ctx.add("panics")
            ctx.notes.append(f"execute_fragment panicked (counted as not answered): case {recs[i]['cid']} {outs[i].get('err')}")
    ctx.add("traces_validated_against_impl", len(outs) - len(bad))
    return bad


def run(ctx):
    rng = random.Random(ctx.seed)
    quick = ctx.tier == "quick"
    runs = [(f"DigestGate_{ctx.tier}.cfg", "pairs", False), (f"DigestGate_hist_{ctx.tier}.cfg", "hist", False),
            ("DigestGate_memo_cex.cfg", "memo", True)]
    if not quick:
        # the 3-exchange state space is explored without emission; the histories to run for real come from a
        # smaller-base configuration that emits only the property-relevant shapes
        runs.append(("DigestGate_hist_emit_thorough.cfg", "hemit", False))

    def one(r):
        return r, run_tlc("DigestGate", r[0], workers=(3 if quick else 8), timeout=3400, heap="6g", tag="C14-" + r[1],
                          coverage=(not quick and not r[2]))
    with cf.ThreadPoolExecutor(max_workers=3 if quick else 2) as ex:
        results = {r[1]: res for r, res in ex.map(one, runs)}
    res, hres, mres = results["pairs"], results["hist"], results["memo"]
    tlc_must_pass(res, "DigestGate (pairs)")
    tlc_must_pass(hres, "DigestGate (histories)")
    ctx.tlc_stats(res, "DigestGate: every initiator/worker pair in the bounds; Safety, SameRows, NothingBeforeTheGate, Complete")
    ctx.tlc_stats(hres, "DigestGate: every history of 2 (quick) / 3 (thorough) exchanges with in-place rewrites of either copy between them, "
                        "one persistent worker context")
    ctx.tlc_stats(mres, "DigestGate with the deviation Memo (worker memoises its split set per shard count): TLC must find the stale answer")
    if mres.error or mres.violated != "Safety":
        raise vlib.ToolError(f"DigestGate_memo_cex: expected a Safety counterexample, got violated={mres.violated} error={str(mres.error)[:200]}")
    ctx.set("model_finds_stale_answer_under_memo_deviation", True)
    cases = [c["steps"][0] for c in res.cases if len(c["steps"]) == 1]
    if not quick:
        tlc_must_pass(results["hemit"], "DigestGate (history emission)")
        ctx.tlc_stats(results["hemit"], "DigestGate: 3-exchange histories (1 file) emitted for replay: agree->differ / differ->agree at one shard count")
    hists = [c for c in (hres if quick else results["hemit"]).cases if len(c["steps"]) >= 2]
    if len(cases) < 3000:
        raise vlib.ToolError(f"DigestGate emitted only {len(cases)} pairs")
    if len(hists) < 2000:
        raise vlib.ToolError(f"DigestGate emitted only {len(hists)} histories")
    if not quick:
        for r0, acts in ((res, ("Fill", "InitiatorSend", "WorkerMalformed", "WorkerEnumerate", "WorkerCompare", "WorkerSlice")),
                         (hres, ("Fill", "InitiatorSend", "WorkerEnumerate", "WorkerCompare", "WorkerSlice", "Evolve"))):
            for act in acts:
                if r0.coverage.get(act, 0) == 0:
                    raise vlib.ToolError(f"DigestGate: action {act} never taken")
    ctx.set("tlc_histories", len(hists))
    ctx.set("tlc_pairs", len(cases))
    by_expect = {}
    for c in cases:
        by_expect[(c["kind"], c["expect"])] = by_expect.get((c["kind"], c["expect"]), 0) + 1
    ctx.set("model_outcomes_by_kind", {f"{k}/{e}": v for (k, e), v in sorted(by_expect.items())})
    picked = pick_cases(cases, rng, 6 if quick else 60)
    recs = build_inputs(picked, rng)
    # histories on one long-lived initiator context and one long-lived worker context
    hpicked = pick_histories(hists, rng, 3 if quick else 10, 220 if quick else 2500)
    hrecs = build_histories(hpicked, rng)
    with cf.ThreadPoolExecutor(max_workers=2) as ex:
        f1 = ex.submit(run_real, ctx, recs, "gate")
        f2 = ex.submit(run_histories, ctx, hrecs, "hist")
        outs, houts = f1.result(), f2.result()
    # one trace: the single exchanges, then every step of every history
    bad, drifts = tlc_judge(ctx, outs + houts, "trace")
    k = len(outs)
    judge_all(ctx, recs, outs, "trace", pre=([i for i in bad if i < k], [(i, w) for i, w in drifts if i < k]))
    judge_histories(ctx, hrecs, houts, "trace", pre=([i - k for i in bad if i >= k], [(i - k, w) for i, w in drifts if i >= k]))
    hstat = {"histories": len(hrecs), "exchanges": len(houts), "in_place_rewrites": sum(max(o["rewrites_so_far"] for o in houts if o["hid"] == h["hid"]) for h in hrecs),
             "stale_after_agree": 0, "answered_after_fix": 0, "outcomes": {}}
    by = {}
    for o in houts:
        by.setdefault(o["hid"], []).append(o)
    hn = set()
    for hid, st in by.items():
        ctx.add("evaluations", len(st))
        differs = [content_key(o["init"]) != content_key(o["work"]) for o in st]
        # shapes exercised (from the footers on disk, not from what the code answered)
        for i in range(len(st)):
            for j in range(i + 1, len(st)):
                if st[i]["n"] == st[j]["n"] and 0 <= st[j]["idx"] < st[j]["n"] and 0 <= st[i]["idx"] < st[i]["n"] \
                        and st[j]["rewrites_so_far"] > st[i]["rewrites_so_far"]:
                    if not differs[i] and differs[j]:
                        hstat["stale_after_agree"] += 1
                        hn.add(hid)
                    if differs[i] and not differs[j]:
                        hstat["answered_after_fix"] += 1
                        hn.add(hid)
        for o, d in zip(st, differs):
            key = ("differs" if d else "agrees") + "/" + ("in" if 0 <= o["idx"] < o["n"] else "out") + "/" + o["outcome"]
            hstat.setdefault("outcomes", {})[key] = hstat.get("outcomes", {}).get(key, 0) + 1
    ctx.set("history_stats", hstat)
    if hstat["stale_after_agree"] < 5 or hstat["answered_after_fix"] < 5 or hstat["in_place_rewrites"] < 20:
        vacuity(ctx, f"histories did not exercise agree -> rewritten -> differ and differ -> fixed -> agree (same shard count, valid index) often enough: {hstat}")
    ctx.sample({"history": [{k: o.get(k) for k in ("step", "kind", "init", "work", "n", "idx", "outcome", "err")} for o in by[sorted(hn)[0]]]})
    # evidence / vacuity
    nontriv = set()
    tab = {}
    mismatch = 0
    for r, o in zip(recs, outs):
        ctx.add("evaluations")
        differs = content_key(o["init"]) != content_key(o["work"])
        cls = ("probe:" if r.get("probe") else "") + ("tampered" if r["tamper"] else r["kind"]) + "/" + idx_class(r) + "/" + ("differs" if differs else "agrees") + "/" + o["outcome"]
        tab[cls] = tab.get(cls, 0) + 1
        if differs or r["tamper"] or idx_class(r) != "in":
            nontriv.add(vlib.chash([o["init"], o["work"], r["n"], r["idx"], r["tamper"], r["viadir"]]))
        exp = "answered" if r["expect"] == "ran" else "refused"
        if o["outcome"] != exp and not r.get("probe"):
            mismatch += 1
    ctx.set("real_outcomes", dict(sorted(tab.items())))
    ctx.set("distinct_nontrivial", len(nontriv) + len(hn))
    if mismatch:
        ctx.notes.append(f"fidelity: {mismatch} real outcomes differ from the outcome DigestGate.tla predicts for the abstract pair")
    ctx.set("model_vs_real_outcome_mismatches", mismatch)
    answered = sum(v for k, v in tab.items() if k.endswith("/answered"))
    if answered < 10:
        vacuity(ctx, f"only {answered} fragments were answered: the gate was not observed to let equal copies through (coverage collapse)")
    for k in MUT_KINDS:
        if not any(key.startswith(k + "/in/differs/") for key in tab):
            vacuity(ctx, f"mutation kind {k} never produced differing real footers with a valid shard index")
    for cls in ("absent", "n", "beyond"):
        if not any(f"/{cls}/" in key for key in tab):
            vacuity(ctx, f"shard index class {cls} never exercised")
    eqb = [o for r, o in zip(recs, outs) if r.get("equal_bytes")]
    if not eqb or any(o["init"][0]["rgs"][0]["bytes"] != o["work"][0]["rgs"][0]["bytes"] for o in eqb):
        vacuity(ctx, "the equal-bytes pair (4 vs 5 rows) no longer has equal byte sizes")
    if not any(key.startswith("tampered/") for key in tab):
        vacuity(ctx, "no tampered-digest exchange")
    if not any(key.startswith("probe:") and "/differs/" in key for key in tab) or \
            not any(o.get("ran_sql") == 1 and r.get("probe") for r, o in zip(recs, outs)):
        vacuity(ctx, "the ordering probe was not exercised on differing copies, or never surfaced on agreeing ones")
    for o in (outs[0], outs[len(outs) // 2], outs[-1]):
        ctx.sample({k: o.get(k) for k in ("kind", "init", "work", "n", "idx", "tamper", "outcome", "err", "ids")})
    ctx.set("exhaustive", True)
    ctx.set("rule", "TLC (DigestGate.tla) enumerates every base inventory in the bounds paired with every variant as the worker's copy (same content "
            "re-listed / re-mounted; each single-attribute mutation: rename, +1 row, +1 byte-size class, +/- a row group, +/- a file), shard counts "
            "and shard indices absent/0/n-1/n/n+1, and checks the gate on the model. A stratified seeded sample (per kind x index class x shard count) is "
            "materialised as two directories of real Parquet files; the initiator's digest comes from the real initiator context (splits_of), the worker "
            "runs the public execute_fragment; DigestGateTrace.tla judges each exchange against footers read back from disk. distinct_nontrivial = "
            "distinct exchanges in which the copies differ, the digest was tampered with, or the index is not a valid shard, plus histories that contain "
            "answered -> rewrite -> refused or refused -> fix -> answered at one shard count. Histories: TLC enumerates every sequence of 2/3 exchanges with "
            "in-place rewrites (+1 row, byte size, +/- row group, or one copy brought in line with the other) of either copy between them and any shard "
            "count per exchange; a stratified sample is run against ONE reused initiator context and ONE reused worker context (register_parquet on the "
            "directory, or an explicit file list), files being rewritten under the same paths with a fresh modification time.")
    ctx.assumptions += ["a file or row group without rows is not split-relevant (the gate may let it through)",
                        "a request whose shard index is absent is modelled as refused at decode (wire form without the field)",
                        "tables whose copies differ only in values (same names, layout, row counts and byte sizes) are outside the property",
                        "in-place rewrites get a modification time no earlier version of the path had (a rewrite inside the file system's timestamp "
                        "granularity is C19's subject); files are never added to or removed from a registered table during a history",
                        "the other-rows comparison (rows returned vs rows the initiator attributes to the shard) is fidelity: it belongs to C13"]


def replay(ctx, obj):
    if "hist" in obj["case"]:
        h = obj["case"]["hist"]
        outs = run_histories(ctx, [h], "replay")
        judge_histories(ctx, [h], outs, "replay")
        ctx.add("evaluations", len(outs)); ctx.set("distinct_nontrivial", 1); ctx.sample(outs[-1])
        return
    c = dict(obj["case"])
    c.setdefault("expect", "refused")
    outs = run_real(ctx, [c], "replay")
    judge_all(ctx, [c], outs, "replay")
    ctx.add("evaluations"); ctx.set("distinct_nontrivial", 1); ctx.sample(outs[0])


def selftest(ctx):
    f1 = [{"name": 1, "dir": 1, "rgs": [{"rows": 4, "w": 3}, {"rows": 2, "w": 9}]}, {"name": 2, "dir": 2, "rgs": [{"rows": 3, "w": 1}]}]
    f2 = copy.deepcopy(f1); f2[0]["rgs"][0]["rows"] = 5
    base = [{"cid": 1, "kind": "same", "init": f1, "work": f1, "n": 2, "idx": 1, "tamper": 0, "viadir": 0, "expect": "ran"},
            {"cid": 2, "kind": "rowplus", "init": f1, "work": f2, "n": 2, "idx": 1, "tamper": 0, "viadir": 0, "expect": "refused"},
            {"cid": 3, "kind": "same", "init": f1, "work": f1, "n": 2, "idx": 2, "tamper": 0, "viadir": 0, "expect": "refused"},
            {"cid": 4, "kind": "tampered", "init": f1, "work": f1, "n": 2, "idx": 0, "tamper": 4, "viadir": 0, "expect": "refused"}]
    outs = run_real(ctx, base, "selftest")
    bad, _ = tlc_judge(ctx, outs, "selftest-orig")
    if bad or outs[0]["outcome"] != "answered":
        print("selftest: the unmodified exchanges are rejected / the equal pair was not answered")
        return 1
    missed = 0
    for i, why in ((1, "answered although a row count differs"), (2, "answered although the shard index is out of range"),
                   (3, "answered although the digest is not the initiator's")):
        t = copy.deepcopy(outs[i]); t["outcome"] = "answered"; t["ids"] = outs[0]["ids"]
        bad, _ = tlc_judge(ctx, [t], "selftest-mut")
        print(f"selftest: {'rejected' if bad else 'ACCEPTED (binding lost)'}: {why}")
        missed += 0 if bad else 1
    t = copy.deepcopy(outs[1]); t["ran_sql"] = 1
    bad, _ = tlc_judge(ctx, [t], "selftest-mut")
    print(f"selftest: {'rejected' if bad else 'ACCEPTED (binding lost)'}: the statement ran before the digest was compared")
    missed += 0 if bad else 1
    # a dropped gate would also show as drift-free answers over other rows: check the fidelity probe fires
    t = copy.deepcopy(outs[0]); t["ids"] = t["ids"][:-1]
    _, drifts = tlc_judge(ctx, [t], "selftest-mut")
    print(f"selftest: {'reported' if drifts else 'MISSED'}: answer over other rows than the initiator's shard (fidelity probe)")
    missed += 0 if drifts else 1
    # histories: a stale answer after an in-place rewrite must be rejected
    a = [{"name": 1, "dir": 1, "rgs": [{"rows": 4, "w": 3}]}]
    b = [{"name": 1, "dir": 1, "rgs": [{"rows": 5, "w": 3}]}]
    h = {"hid": 1, "viadir": 1, "steps": [{"kind": "same", "init": a, "work": a, "n": 2, "idx": 0, "probe": 0, "expect": "ran"},
                                          {"kind": "worker-rowplus", "init": a, "work": b, "n": 2, "idx": 0, "probe": 0, "expect": "refused"},
                                          {"kind": "worker-fixed", "init": a, "work": a, "n": 2, "idx": 1, "probe": 0, "expect": "ran"}]}
    houts = run_histories(ctx, [h], "selftest-h")
    bad, _ = tlc_judge(ctx, houts, "selftest-h-orig")
    if bad or [o["outcome"] for o in houts] != ["answered", "refused", "answered"]:
        print(f"selftest: the real history is not answered/refused/answered or is rejected: {[o['outcome'] for o in houts]}")
        return 1
    t = copy.deepcopy(houts); t[1]["outcome"] = "answered"; t[1]["ids"] = houts[0]["ids"]; t[1]["ran_sql"] = 1
    bad, _ = tlc_judge(ctx, t, "selftest-h-mut")
    print(f"selftest: {'rejected' if bad else 'ACCEPTED (binding lost)'}: answered from what the worker context remembered although its file was rewritten")
    missed += 0 if bad else 1
    return 1 if missed else 0
