"""C14 — nodes that disagree about the data refuse to answer (DigestGate.tla / DigestGateTrace.tla)."""
import copy, json, os, random, shutil
import vlib
from vlib import run_tlc, tlc_must_pass, qev, write_ndjson, read_ndjson, validate_trace

LEVEL = "model_checking"
MUT_KINDS = ["rename", "rowplus", "bytesplus", "rgplus", "rgminus", "fileplus", "fileminus"]
SAME_KINDS = ["same", "same-moved", "same-perm"]
CASE_KEYS = ("cid", "kind", "init", "work", "n", "idx", "tamper", "viadir", "probe", "expect")


def to_spec(files, rs, ws, onedir=False):
    return [{"name": f["name"], "dir": 1 if onedir else f["dir"],
             "rgs": [{"rows": g["rows"] * rs, "w": g["bytes"] * ws} for g in f["rgs"]]} for f in files]


def idx_class(c):
    return "absent" if c["idx"] < 0 else "in" if c["idx"] < c["n"] else "n" if c["idx"] == c["n"] else "beyond"


def pick_cases(cases, rng, per_stratum):
    strata = {}
    for c in cases:
        strata.setdefault((c["kind"], idx_class(c), c["n"]), []).append(c)
    out = []
    for key in sorted(strata):
        lst = strata[key]
        lst.sort(key=lambda c: json.dumps(c, sort_keys=True))
        # favour pairs with rows on the initiator side (an empty table is the dull corner)
        rich = [c for c in lst if sum(g["rows"] for f in c["init"] for g in f["rgs"]) >= 2]
        pool = rich if len(rich) >= per_stratum else lst
        out += rng.sample(pool, min(per_stratum, len(pool)))
    return out


def build_inputs(picked, rng):
    recs = []
    cid = 0
    for c in picked:
        rs, ws = rng.choice([(1, 1), (1, 8), (7, 1), (37, 8)])
        cid += 1
        work = to_spec(c["work"], rs, ws)
        if c["kind"] == "same-perm":
            # directory order opposite to name order (a canonical order by path instead of by name shows here)
            work = [dict(f, dir=60 - f["dir"]) for f in work]
        recs.append({"cid": cid, "kind": c["kind"], "init": to_spec(c["init"], rs, ws), "work": work,
                     "n": c["n"], "idx": c["idx"], "tamper": 0, "viadir": 0, "expect": c["expect"]})
        # the same pair through the plain register_parquet(directory) path (one directory per copy)
        if cid % 4 == 0 and c["kind"] != "same-perm" and c["work"]:
            cid += 1
            recs.append({"cid": cid, "kind": c["kind"], "init": to_spec(c["init"], rs, ws, True), "work": to_spec(c["work"], rs, ws, True),
                         "n": c["n"], "idx": c["idx"], "tamper": 0, "viadir": 1, "expect": c["expect"]})
        # ordering probe: a statement whose own error would surface if it were executed before the gate
        if idx_class(c) == "in" and cid % 2 == 0:
            cid += 1
            recs.append({"cid": cid, "kind": c["kind"], "init": to_spec(c["init"], rs, ws), "work": to_spec(c["work"], rs, ws),
                         "n": c["n"], "idx": c["idx"], "tamper": 0, "viadir": 0, "probe": 1, "expect": "refused"})
        # identical copies, but the request does not carry the initiator's digest
        if c["kind"] in SAME_KINDS and idx_class(c) == "in" and cid % 3 == 0:
            cid += 1
            recs.append({"cid": cid, "kind": "tampered", "init": to_spec(c["init"], rs, ws), "work": to_spec(c["work"], rs, ws),
                         "n": c["n"], "idx": c["idx"], "tamper": rng.choice([1, 2, 255, 1 << 40]), "viadir": 0, "probe": cid % 2, "expect": "refused"})
    # handcrafted: same byte size, different row count (only num_rows tells the copies apart)
    a = [{"name": 1, "dir": 1, "rgs": [{"rows": 4, "w": 8}]}]
    b = [{"name": 1, "dir": 1, "rgs": [{"rows": 5, "w": 4}]}]
    for n, idx, probe in ((1, 0, 0), (2, 0, 0), (2, 1, 1)):
        cid += 1
        recs.append({"cid": cid, "kind": "rowplus", "init": a, "work": b, "n": n, "idx": idx, "tamper": 0, "viadir": 0, "probe": probe,
                     "expect": "refused", "equal_bytes": 1})
    return recs


def run_real(ctx, recs, tag):
    inp = os.path.join(ctx.work, f"{tag}.in.ndjson")
    outp = os.path.join(ctx.work, f"{tag}.out.ndjson")
    files = os.path.join(ctx.work, f"{tag}.files")
    shutil.rmtree(files, ignore_errors=True)
    write_ndjson(inp, recs)
    try:
        qev(["gate-replay", inp, outp, files], timeout=3000)
    finally:
        shutil.rmtree(files, ignore_errors=True)
    outs = read_ndjson(outp)
    if len(outs) != len(recs):
        raise vlib.ToolError("gate-replay returned a different number of records")
    for o in outs:
        if o["outcome"] == "setup_error":
            raise vlib.ToolError(f"gate-replay could not set up case {o['cid']}: {o.get('err')}")
    return outs


def trace_rec(o):
    return {"cid": o["cid"], "kind": o["kind"], "init": o["init"], "work": o["work"], "n": o["n"], "idx": o["idx"],
            "tamper": 1 if o["tamper"] else 0, "outcome": o["outcome"], "ids": o.get("ids", []), "init_ids": o.get("init_ids", []),
            "init_has": o.get("init_has", 0), "digest_eq": o.get("digest_eq", 0), "probe": o.get("probe", 0),
            "ran_sql": o.get("ran_sql", 0)}


def tlc_judge(ctx, outs, name):
    """DigestGateTrace over the exchanges; returns (rejected indices, drift list)."""
    bad, drifts = [], []
    rest, base = [trace_rec(o) for o in outs], 0
    path = os.path.join(ctx.work, f"{name}.ndjson")
    while rest:
        write_ndjson(path, rest)
        ok, rej, res = validate_trace("DigestGateTrace", "DigestGateTrace.cfg", path, timeout=3000, heap="4g", tag=f"C14-{name}")
        ctx.tlc_stats(res, f"DigestGateTrace over {len(rest)} fragment exchanges on the real code")
        upto = len(rest) if ok else rej["line"] - 1
        for k, r in res.prints:
            if k == "DRIFT" and r["line"] <= upto + (0 if ok else 0):
                drifts.append((base + r["line"] - 1, r["what"]))
        if ok:
            break
        i = rej["line"] - 1
        bad.append(base + i)
        base += i + 1
        rest = rest[i + 1:]
        if len(bad) >= 8:
            break
    return bad, sorted(set(drifts))


def content_key(files):
    vis = []
    for f in files:
        v = tuple((j, g["rows"], g["bytes"]) for j, g in enumerate(f["rgs"]) if g["rows"] > 0)
        if v:
            vis.append((f["name"], v))
    return tuple(sorted(vis))


def judge_all(ctx, recs, outs, name):
    bad, drifts = tlc_judge(ctx, outs, name)
    for i in bad:
        o = outs[i]
        same = content_key(o["init"]) == content_key(o["work"])
        why = (f"execute_fragment {'ran the statement of' if o.get('ran_sql') and o['outcome'] != 'answered' else o['outcome']} shard {o['idx']} of {o['n']} although "
               + ("the request did not carry the initiator's digest" if o["tamper"] else
                  "the shard index is out of range" if same else
                  f"the worker's copy differs from the initiator's ({o['kind']}): answered over rows {o.get('ids')[:6]}..."))
        ctx.violation({k: recs[i][k] for k in CASE_KEYS if k in recs[i]}, why)
    for i, what in drifts:
        if what == "false-refusal":
            ctx.add("false_refusals")
            if ctx.cov.get("false_refusals", 0) <= 3:
                ctx.notes.append(f"fidelity: fragment refused although the copies agree and the index is valid: case {recs[i]['cid']} {outs[i].get('err')}")
        elif what == "other-rows":
            ctx.add("foreign_findings_answered_other_rows")
            if ctx.cov.get("foreign_findings_answered_other_rows", 0) <= 3:
                ctx.notes.append(f"foreign (C13): copies agree, digest agrees, but the shard returned other rows than the initiator attributes to it: case {recs[i]['cid']}")
        elif what == "panic":
            ctx.add("panics")
            ctx.notes.append(f"execute_fragment panicked (counted as not answered): case {recs[i]['cid']} {outs[i].get('err')}")
    ctx.add("traces_validated_against_impl", len(outs) - len(bad))
    return bad


def run(ctx):
    rng = random.Random(ctx.seed)
    quick = ctx.tier == "quick"
    res = run_tlc("DigestGate", f"DigestGate_{ctx.tier}.cfg", workers=(4 if quick else 8), timeout=3400, heap="6g", tag="C14-model", coverage=not quick)
    tlc_must_pass(res, "DigestGate")
    ctx.tlc_stats(res, "DigestGate: every initiator/worker pair in the bounds; Safety, SameRows, NothingBeforeTheGate, Complete")
    cases = res.cases
    if len(cases) < 3000:
        raise vlib.ToolError(f"DigestGate emitted only {len(cases)} pairs")
    if not quick:
        for act in ("Fill", "InitiatorSend", "WorkerMalformed", "WorkerEnumerate", "WorkerCompare", "WorkerSlice"):
            if res.coverage.get(act, 0) == 0:
                raise vlib.ToolError(f"DigestGate: action {act} never taken")
    ctx.set("tlc_pairs", len(cases))
    by_expect = {}
    for c in cases:
        by_expect[(c["kind"], c["expect"])] = by_expect.get((c["kind"], c["expect"]), 0) + 1
    ctx.set("model_outcomes_by_kind", {f"{k}/{e}": v for (k, e), v in sorted(by_expect.items())})
    picked = pick_cases(cases, rng, 6 if quick else 60)
    recs = build_inputs(picked, rng)
    outs = run_real(ctx, recs, "gate")
    judge_all(ctx, recs, outs, "trace")
    # evidence / vacuity
    nontriv = set()
    tab = {}
    mismatch = 0
    for r, o in zip(recs, outs):
        ctx.add("evaluations")
        differs = content_key(o["init"]) != content_key(o["work"])
        cls = ("probe:" if r.get("probe") else "") + ("tampered" if r["tamper"] else r["kind"]) + "/" + idx_class(r) + "/" + ("differs" if differs else "agrees") + "/" + o["outcome"]
        tab[cls] = tab.get(cls, 0) + 1
        if differs or r["tamper"] or idx_class(r) != "in":
            nontriv.add(vlib.chash([o["init"], o["work"], r["n"], r["idx"], r["tamper"], r["viadir"]]))
        exp = "answered" if r["expect"] == "ran" else "refused"
        if o["outcome"] != exp and not r.get("probe"):
            mismatch += 1
    ctx.set("real_outcomes", dict(sorted(tab.items())))
    ctx.set("distinct_nontrivial", len(nontriv))
    if mismatch:
        ctx.notes.append(f"fidelity: {mismatch} real outcomes differ from the outcome DigestGate.tla predicts for the abstract pair")
    ctx.set("model_vs_real_outcome_mismatches", mismatch)
    answered = sum(v for k, v in tab.items() if k.endswith("/answered"))
    if answered < 10:
        raise vlib.ToolError(f"only {answered} fragments were answered: the gate was not observed to let equal copies through (coverage collapse)")
    for k in MUT_KINDS:
        if not any(key.startswith(k + "/in/differs/") for key in tab):
            raise vlib.ToolError(f"mutation kind {k} never produced differing real footers with a valid shard index")
    for cls in ("absent", "n", "beyond"):
        if not any(f"/{cls}/" in key for key in tab):
            raise vlib.ToolError(f"shard index class {cls} never exercised")
    eqb = [o for r, o in zip(recs, outs) if r.get("equal_bytes")]
    if not eqb or any(o["init"][0]["rgs"][0]["bytes"] != o["work"][0]["rgs"][0]["bytes"] for o in eqb):
        raise vlib.ToolError("the equal-bytes pair (4 vs 5 rows) no longer has equal byte sizes")
    if not any(key.startswith("tampered/") for key in tab):
        raise vlib.ToolError("no tampered-digest exchange")
    if not any(key.startswith("probe:") and "/differs/" in key for key in tab) or \
            not any(o.get("ran_sql") == 1 and r.get("probe") for r, o in zip(recs, outs)):
        raise vlib.ToolError("the ordering probe was not exercised on differing copies, or never surfaced on agreeing ones")
    for o in (outs[0], outs[len(outs) // 2], outs[-1]):
        ctx.sample({k: o.get(k) for k in ("kind", "init", "work", "n", "idx", "tamper", "outcome", "err", "ids")})
    ctx.set("exhaustive", True)
    ctx.set("rule", "TLC (DigestGate.tla) enumerates every base inventory in the bounds paired with every variant as the worker's copy (same content "
            "re-listed / re-mounted; each single-attribute mutation: rename, +1 row, +1 byte-size class, +/- a row group, +/- a file), shard counts "
            "and shard indices absent/0/n-1/n/n+1, and checks the gate on the model. A stratified seeded sample (per kind x index class x shard count) is "
            "materialised as two directories of real Parquet files; the initiator's digest comes from the real initiator context (splits_of), the worker "
            "runs the public execute_fragment; DigestGateTrace.tla judges each exchange against footers read back from disk. distinct_nontrivial = "
            "distinct exchanges in which the copies differ, the digest was tampered with, or the index is not a valid shard.")
    ctx.assumptions += ["a file or row group without rows is not split-relevant (the gate may let it through)",
                        "a request whose shard index is absent is modelled as refused at decode (wire form without the field)",
                        "tables whose copies differ only in values (same names, layout, row counts and byte sizes) are outside the property",
                        "the other-rows comparison (rows returned vs rows the initiator attributes to the shard) is fidelity: it belongs to C13"]


def replay(ctx, obj):
    c = dict(obj["case"])
    c.setdefault("expect", "refused")
    outs = run_real(ctx, [c], "replay")
    judge_all(ctx, [c], outs, "replay")
    ctx.add("evaluations"); ctx.set("distinct_nontrivial", 1); ctx.sample(outs[0])


def selftest(ctx):
    f1 = [{"name": 1, "dir": 1, "rgs": [{"rows": 4, "w": 3}, {"rows": 2, "w": 9}]}, {"name": 2, "dir": 2, "rgs": [{"rows": 3, "w": 1}]}]
    f2 = copy.deepcopy(f1); f2[0]["rgs"][0]["rows"] = 5
    base = [{"cid": 1, "kind": "same", "init": f1, "work": f1, "n": 2, "idx": 1, "tamper": 0, "viadir": 0, "expect": "ran"},
            {"cid": 2, "kind": "rowplus", "init": f1, "work": f2, "n": 2, "idx": 1, "tamper": 0, "viadir": 0, "expect": "refused"},
            {"cid": 3, "kind": "same", "init": f1, "work": f1, "n": 2, "idx": 2, "tamper": 0, "viadir": 0, "expect": "refused"},
            {"cid": 4, "kind": "tampered", "init": f1, "work": f1, "n": 2, "idx": 0, "tamper": 4, "viadir": 0, "expect": "refused"}]
    outs = run_real(ctx, base, "selftest")
    bad, _ = tlc_judge(ctx, outs, "selftest-orig")
    if bad or outs[0]["outcome"] != "answered":
        print("selftest: the unmodified exchanges are rejected / the equal pair was not answered")
        return 1
    missed = 0
    for i, why in ((1, "answered although a row count differs"), (2, "answered although the shard index is out of range"),
                   (3, "answered although the digest is not the initiator's")):
        t = copy.deepcopy(outs[i]); t["outcome"] = "answered"; t["ids"] = outs[0]["ids"]
        bad, _ = tlc_judge(ctx, [t], "selftest-mut")
        print(f"selftest: {'rejected' if bad else 'ACCEPTED (binding lost)'}: {why}")
        missed += 0 if bad else 1
    t = copy.deepcopy(outs[1]); t["ran_sql"] = 1
    bad, _ = tlc_judge(ctx, [t], "selftest-mut")
    print(f"selftest: {'rejected' if bad else 'ACCEPTED (binding lost)'}: the statement ran before the digest was compared")
    missed += 0 if bad else 1
    # a dropped gate would also show as drift-free answers over other rows: check the fidelity probe fires
    t = copy.deepcopy(outs[0]); t["ids"] = t["ids"][:-1]
    _, drifts = tlc_judge(ctx, [t], "selftest-mut")
    print(f"selftest: {'reported' if drifts else 'MISSED'}: answer over other rows than the initiator's shard (fidelity probe)")
    missed += 0 if drifts else 1
    return 1 if missed else 0
