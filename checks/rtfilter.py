"""Sub-model "RuntimeFilter" (X05; parent property for findings: C22 "joins follow SQL join semantics").

Model      spec/RuntimeFilter.tla — builder (one action per build batch, then ONE Publish = the mutex critical section)
           || scanner (per row group: lock/clone/unlock, then filter with what it saw) for every join kind, every small
           build/probe table over {NULL, negative, ...} keys and EVERY interleaving.  Invariants: published => build
           complete; no false negative of the visible filter; every needed probe row reaches the join; final answer with
           filters == answer without.  Seeded spec mistakes (MUTANTS) must be rejected, reachability witnesses (WITNESSES)
           must be reachable.
Binding    (a) value level: every (payload, probe key) pair TLC emits (+ 64-bit extremes made here) is replayed on the REAL
           `RuntimeFilterPayload::contains` (qev rtfilter-contains);
           (b) end to end: join kind x key shapes x Int32/Int64 through ExecutionContext::sql over multi-row-group Parquet
           tables (streaming scan + linked runtime filter; RT_DEBUG lines prove `linked` and `published`) against the same
           statement over in-memory tables (no streaming scan => no filter), every answer judged by
           spec/RuntimeFilterTrace.tla, which recomputes the join from the recorded tables.
Stand-alone: ./check X05 (checks/x05.py).  Not wired into any parent check."""
import json, os, random
from concurrent.futures import ThreadPoolExecutor
import vlib
from vlib import run_tlc, tlc_must_pass, qev, write_ndjson, read_ndjson, validate_records

NULL = vlib.NULL
NAME = "rtfilter"
PARENT = "C22"

MUTANTS = {  # cfg suffix -> invariant(s) that may refute it
    "PublishEarly": {"PublishedImpliesComplete", "NoNeededRowLost", "FilterSound", "FinalAnswer"},
    "AttachProbeOuter": {"NoNeededRowLost", "FinalAnswer"},
    "AttachProbeAnti": {"NoNeededRowLost", "FinalAnswer"},
    "AttachFull": {"NoNeededRowLost", "FinalAnswer"},
    "ContainsBelowMin": {"FilterExact"},
    "MinIsFirstKey": {"FilterSound", "NoNeededRowLost", "FinalAnswer"},
    "PublishTorn": {"FilterSound", "NoNeededRowLost", "FinalAnswer"},
}
WITNESSES = ["NeverDrops", "NeverDropsWithStaleNone", "NeverSet", "NeverSkips"]
FILTER_KINDS = ("inner", "semi", "anti")       # SQL kinds for which the planner links a filter (build = left)


# ----------------------------------------------------------------------------------------------- model
def _tlc(cfg, workers=2, timeout=1500, heap="4g"):
    return run_tlc("RuntimeFilter", cfg, workers=workers, timeout=timeout, heap=heap, tag="X05-" + cfg[:-4])


def run_mutants(ctx=None):
    """every seeded spec mistake must be refuted by one of the invariants it is meant to break; returns the survivors"""
    def one(m):
        return m, _tlc(f"RuntimeFilter_mut_{m}.cfg")
    bad = []
    with ThreadPoolExecutor(4) as ex:
        for m, res in ex.map(one, sorted(MUTANTS)):
            if res.error:
                raise vlib.ToolError(f"TLC error in mutant {m}: {res.error[:300]}")
            if res.violated not in MUTANTS[m]:
                bad.append((m, res.violated))
            if ctx is not None:
                ctx.cov.setdefault("rtfilter_mutants_refuted_by", {})[m] = res.violated
    return bad


def run_witnesses(ctx):
    """vacuity: rows are really dropped, a stale None is really seen, Set / no-publish payloads really occur"""
    def one(w):
        return w, _tlc(f"RuntimeFilter_wit_{w}.cfg")
    with ThreadPoolExecutor(4) as ex:
        for w, res in ex.map(one, WITNESSES):
            if res.error:
                raise vlib.ToolError(f"TLC error in witness {w}: {res.error[:300]}")
            if res.violated != w:
                raise vlib.ToolError(f"vacuity: behaviour '{w}' is not reachable in RuntimeFilter.tla (model never exercises it)")
    ctx.set("rtfilter_witnesses_reachable", WITNESSES)


def run_model(ctx):
    cfgs = (["RuntimeFilter_quick.cfg", "RuntimeFilter_quick_wide.cfg"] if ctx.tier == "quick"
            else ["RuntimeFilter_thorough.cfg", "RuntimeFilter_thorough_deep.cfg", "RuntimeFilter_quick_wide.cfg"])
    cases = []
    for cfg in cfgs:
        res = _tlc(cfg, workers=6, heap="6g")
        tlc_must_pass(res, f"RuntimeFilter/{cfg}")
        ctx.tlc_stats(res, f"RuntimeFilter {cfg}: all tables x kinds x interleavings; 7 invariants")
        ctx.add("rtfilter_model_states", res.distinct)
        cases += res.cases
    run_witnesses(ctx)
    bad = run_mutants(ctx)
    if bad:
        raise vlib.ToolError(f"seeded spec mistakes not refuted: {bad}")
    ctx.set("rtfilter_model_negative_runs", len(MUTANTS))
    seen, out = set(), []
    for c in cases:
        k = json.dumps(c, sort_keys=True)
        if k not in seen:
            seen.add(k)
            out.append(c)
    if len(out) < 40:
        raise vlib.ToolError(f"RuntimeFilter.tla emitted only {len(out)} contains() cases")
    return out


# ----------------------------------------------------------------------------------------------- (a) value level
def py_contains_cases():
    """64-bit corners TLC's 32-bit ints cannot hold; judged by set membership in python"""
    I64MIN, I64MAX = -2**63, 2**63 - 1
    out = []
    def bitmap(keys, vs):
        mn, mx = min(keys), max(keys)
        for v in vs:
            out.append({"kind": "bitmap", "min": mn, "nbits": mx - mn + 1, "on": sorted(k - mn for k in set(keys)),
                        "keys": sorted(set(keys)), "v": v, "member": 1 if v in keys else 0, "big": 1})
    def hset(keys, vs):
        for v in vs:
            out.append({"kind": "set", "min": 0, "nbits": 0, "on": [], "keys": sorted(set(keys)), "v": v,
                        "member": 1 if v in keys else 0, "big": 1})
    ext = [I64MIN, I64MIN + 1, -2**32, -2**31 - 1, -1, 0, 1, 2**31, 2**32 + 5, I64MAX - 1, I64MAX]
    bitmap([-5, 0, 58, 59, 124], ext + [-6, -5, -4, 58, 59, 60, 63, 64, 122, 123, 124, 125, 186, 187, 188, 1000])
    bitmap([I64MIN, I64MIN + 3, I64MIN + 64], ext + [I64MIN + 2, I64MIN + 3, I64MIN + 63, I64MIN + 64, I64MIN + 65, I64MIN + 128])
    bitmap([I64MAX - 70, I64MAX - 6, I64MAX], ext + [I64MAX - 71, I64MAX - 70, I64MAX - 7, I64MAX - 6, I64MAX - 5])
    bitmap([2**31 - 2, 2**31 + 1], ext + [2**31 - 3, 2**31 - 2, 2**31 - 1, 2**31 + 1, 2**31 + 2, -2**31 + 1])
    hset([I64MIN, -7, 0, 2**40, I64MAX], ext + [-7, -8, 2**40, 2**40 + 1])
    return out


def replay_contains(ctx, cases, tag="contains"):
    inp, outp = os.path.join(ctx.work, f"{tag}.in.ndjson"), os.path.join(ctx.work, f"{tag}.out.ndjson")
    for i, c in enumerate(cases):
        c["id"] = i
    write_ndjson(inp, cases)
    qev(["rtfilter-contains", inp, outp])
    outs = read_ndjson(outp)
    if len(outs) != len(cases):
        raise vlib.ToolError("rtfilter-contains lost cases")
    return outs


def judge_contains(ctx, outs):
    """contract: a build key is never reported absent (false negative => a matching probe row would be dropped), no panic.
    fidelity: a non-member reported present (false positive) only costs decode work: note, not a violation."""
    good = []
    for r in outs:
        ctx.add("evaluations")
        ctx.add("rtfilter_contains_calls")
        case = {"kind": NAME, "sub": "contains", **{k: r[k] for k in ("min", "nbits", "on", "keys", "v", "member")}, "payload": r["kind"]}
        if r["got"] == -1:
            ctx.violation(case, f"RuntimeFilterPayload::contains panicked: {r.get('panic', '')[:200]}")
        elif r["member"] == 1 and r["got"] == 0:
            ctx.violation(case, f"contains({r['v']}) = false for a build key of {r['kind']} payload keys={r['keys']} min={r['min']}: "
                                "a matching probe row would be dropped by the scan")
        elif r["member"] == 0 and r["got"] == 1:
            ctx.notes.append(f"rtfilter fidelity: contains({r['v']}) = true for a non-member (keys={r['keys']}): harmless false positive")
            ctx.add("rtfilter_contains_false_positives")
        elif "exp" in r and r["exp"] != r["got"]:
            raise vlib.ToolError(f"RuntimeFilter.tla Contains disagrees with membership on {r}")
        else:
            good.append(r)
    return good


def contains_trace_recs(outs):
    return [{"ev": "contains", "kind": r["kind"], "min": r["min"], "nbits": r["nbits"], "on": r["on"], "keys": r["keys"],
             "v": r["v"], "got": r["got"]} for r in outs if not r.get("big")]


# ----------------------------------------------------------------------------------------------- (b) end to end
# (name, SQL kind, statement, output arity, is the probe (filtered) side the RIGHT table of the recorded pair?)
FORMS = [
    ("inner", "inner", "SELECT tl.v, tr.w FROM tl JOIN tr ON tl.k = tr.k", 2),
    ("inner_rev", "inner", "SELECT tl.v, tr.w FROM tr JOIN tl ON tr.k = tl.k", 2),
    ("inner_where", "inner", "SELECT tl.v, tr.w FROM tl JOIN tr ON tl.k = tr.k WHERE tr.w > 0", 2),
    ("left", "left", "SELECT tl.v, tr.w FROM tl LEFT JOIN tr ON tl.k = tr.k", 2),
    ("right", "right", "SELECT tl.v, tr.w FROM tl RIGHT JOIN tr ON tl.k = tr.k", 2),
    ("full", "full", "SELECT tl.v, tr.w FROM tl FULL JOIN tr ON tl.k = tr.k", 2),
    ("semi", "semi", "SELECT tl.v FROM tl LEFT SEMI JOIN tr ON tl.k = tr.k", 1),
    ("exists", "semi", "SELECT tl.v FROM tl WHERE EXISTS (SELECT 1 FROM tr WHERE tr.k = tl.k)", 1),
    ("in", "semi", "SELECT tl.v FROM tl WHERE tl.k IN (SELECT k FROM tr)", 1),
    ("anti", "anti", "SELECT tl.v FROM tl LEFT ANTI JOIN tr ON tl.k = tr.k", 1),
    ("notexists", "anti", "SELECT tl.v FROM tl WHERE NOT EXISTS (SELECT 1 FROM tr WHERE tr.k = tl.k)", 1),
]
TYPES = [("int", "int"), ("i32", "i32"), ("int", "i32"), ("i32", "int")]

# key shapes (left keys, right keys): NULLs, negatives, duplicates, keys absent from the other side, wide ranges
SHAPES = [
    ([1, NULL, -3, 1], [1, 2, NULL, -3, 7, 1, -9, 2]),
    ([1, 2, NULL, -3, 7, 1, -9, 2], [1, NULL, -3, 1]),
    ([5], [4, 5, 6, NULL, 5, -5, 70, 5]),
    ([-2, -1], [-3, -2, -1, 0, 1, NULL, -2, -66]),
    ([NULL, NULL], [NULL, 1, 2, 3, 4, 5]),
    ([0, 64, 128], [-1, 0, 1, 63, 64, 65, 128, 129]),
    ([3, 3, 3], [3, 3, 4, NULL, 2, 3, 192, 67]),
    ([-1000000, 1000000], [1000000, 0, -1000000, NULL, 999999, -999999, 1000001, 5]),
    ([7, 8, 9, 10, 11, 12, 13, 14], [14, 6]),
    ([2, 4], []),
    ([], [1, 2, 3]),
    ([1, 2, 3, 4], [5, 6, 7, 8, NULL, 9, 10, 0]),
]

CFGS_QUICK = [
    {"name": "mem", "layout": "mem", "batches": 1},
    {"name": "pq_rg2", "layout": "parquet", "files": 1, "rg": 2},
    {"name": "pq_f2_rg3_ss", "layout": "parquet", "files": 2, "rg": 3, "switches": ["stream_small"]},
]
CFGS_THOROUGH = CFGS_QUICK + [
    {"name": "pq_rg1", "layout": "parquet", "files": 1, "rg": 1},
    {"name": "pq_rg2_spillable", "layout": "parquet", "files": 1, "rg": 2, "mem_limit": 268435456},
    {"name": "pq_rg3_part2", "layout": "parquet", "files": 1, "rg": 3, "partitions": 2},
]


def mk_case(form, types, lk, rk):
    name, kind, sql, arity = form
    return {"form": name, "jkind": kind, "sql": sql, "out_types": ["int"] * arity, "types": list(types),
            "tables": [{"name": "tl", "cols": [["k", types[0]], ["v", "int"]], "rows": [[k, i + 1] for i, k in enumerate(lk)]},
                       {"name": "tr", "cols": [["k", types[1]], ["w", "int"]], "rows": [[k, i + 1] for i, k in enumerate(rk)]}]}


def gen_cases(ctx):
    rng = random.Random(ctx.seed * 7919 + 5)
    shapes = list(SHAPES)
    nrand = 4 if ctx.tier == "quick" else 140
    pools = [[NULL, -2, -1, 0, 1, 2, 3], [NULL, -70, -1, 0, 63, 64, 65, 130], [NULL, 5, 6, 7], [-2**31 + 1, -1, 0, 2**31 - 1, NULL, 17]]
    for _ in range(nrand):
        pool = rng.choice(pools)
        nl, nr = rng.randint(0, 5), rng.randint(1, 8)
        if rng.random() < 0.3:
            nl, nr = nr, nl
        shapes.append(([rng.choice(pool) for _ in range(nl)], [rng.choice(pool) for _ in range(nr)]))
    cases = []
    for si, (lk, rk) in enumerate(shapes):
        for form in FORMS:
            for types in (TYPES if (ctx.tier == "thorough" or si < 6) else TYPES[:1]):
                cases.append(mk_case(form, types, lk, rk))
    for i, c in enumerate(cases):
        c["id"] = i
    return cases


def run_e2e(ctx, cases, cfgs, tag="e2e"):
    inp, cfgp, outp = (os.path.join(ctx.work, f"{tag}.{x}") for x in ("in.ndjson", "cfgs.json", "out.ndjson"))
    write_ndjson(inp, cases)
    json.dump(cfgs, open(cfgp, "w"))
    wd = os.path.join(ctx.work, tag + "_wd")
    os.makedirs(wd, exist_ok=True)
    qev(["rtfilter-run", inp, cfgp, outp, wd], timeout=3000)
    outs = read_ndjson(outp)
    if len(outs) != len(cases):
        raise vlib.ToolError("rtfilter-run lost cases")
    return outs


def bag(rows):
    return sorted(map(tuple, rows))


def classify_known(case, cfg, why):
    """deviations of the unchanged tree (listed in known_findings.jsonl when open): exact shape only"""
    if (cfg and cfg.get("layout") == "parquet" and "runtime filter column is not Int64" in why
            and sorted(case.get("types", [])) == ["i32", "int"] and case.get("jkind") in FILTER_KINDS):
        return "C22/rtfilter-int32-probe-column"
    return None


def report(ctx, case, why, cfg=None):
    fid = classify_known(case, cfg, why)
    if fid and ctx.is_known(fid):
        ctx.known(fid, {"case": {k: case[k] for k in ("form", "types", "sql")}, "why": why})
    else:
        ctx.violation(case, why)


def judge_e2e(ctx, cases, outs, cfgs):
    """returns (trace records, per-record case index, stats of the filter path)"""
    recs, owner = [], []
    taken = {k: 0 for k in ("inner", "semi", "anti", "left", "right", "full")}
    for c, o in zip(cases, outs):
        case = {"kind": NAME, "sub": "join", **{k: c[k] for k in ("form", "jkind", "sql", "out_types", "types", "tables")}}
        base = o["outs"][0]
        if base["k"] != "rows":
            # the statement is not runnable even without any streaming scan: not a runtime-filter matter
            ctx.add("rtfilter_e2e_unsupported_in_memory")
            ctx.notes.append(f"rtfilter: form {c['form']} types {c['types']} fails over in-memory tables too ({base.get('cls')}: {base.get('msg', '')[:80]}); skipped")
            continue
        for cfg, out, meta in zip(cfgs, o["outs"], o["meta"]):
            ctx.add("evaluations")
            ctx.add("rtfilter_e2e_runs")
            rt = meta.get("rt", {})
            if cfg["layout"] == "parquet" and rt.get("linked", 0) > 0 and rt.get("published", 0) > 0:
                taken[c["jkind"]] += 1
                ctx.add("rtfilter_e2e_runs_with_filter_published")
            if out["k"] != "rows":
                report(ctx, dict(case, cfg=cfg), f"[{cfg['name']}] {c['form']} {c['types']}: {out['k']} {out.get('cls', '')} {out.get('msg', '')[:200]} "
                       f"but the same statement over in-memory tables answers (rt={rt})", cfg)
                continue
            if bag(out["rows"]) != bag(base["rows"]):
                report(ctx, dict(case, cfg=cfg), f"[{cfg['name']}] {c['form']} {c['types']}: answer over streaming Parquet (rt={rt}) {bag(out['rows'])} "
                       f"!= answer over in-memory tables {bag(base['rows'])}", cfg)
                continue
            recs.append({"ev": "join", "kind": c["jkind"], "l": c["tables"][0]["rows"], "r": c["tables"][1]["rows"], "ans": out["rows"],
                         "cfg": cfg["name"], "form": c["form"]})
            owner.append((case, cfg))
    return recs, owner, taken


def gate_filter_taken(taken):
    missing = [k for k in FILTER_KINDS if taken.get(k, 0) == 0]
    if missing:
        raise vlib.ToolError(f"runtime-filter path never taken (no '[rt] linked' + '[rt] publish' observed) for join kinds {missing}: "
                             "the end-to-end comparison would be vacuous")


def validate(ctx, recs, owner, name):
    # dedupe identical observations (same tables/kind/answer) before handing them to TLC; keep one owner each
    seen, urecs, uown = set(), [], []
    for r, ow in zip(recs, owner):
        k = json.dumps({x: r[x] for x in ("ev", "kind", "l", "r", "ans")} if r["ev"] == "join" else r, sort_keys=True)
        if k not in seen:
            seen.add(k)
            urecs.append(r)
            uown.append(ow)
    rej = validate_records(ctx, "RuntimeFilterTrace", "RuntimeFilterTrace.cfg", urecs, name=name, max_rejects=6, timeout=1800)
    for r in rej:
        i = urecs.index(r)
        ow = uown[i]
        if r["ev"] == "join":
            case, cfg = ow
            report(ctx, dict(case, cfg=cfg), f"[{cfg['name']}] {r['form']}: answer {bag(r['ans'])} is not the SQL {r['kind']} join of the recorded tables "
                   "(RuntimeFilterTrace rejects it)", cfg)
        else:
            ctx.violation({"kind": NAME, "sub": "contains", **r}, "RuntimeFilterTrace rejects a recorded contains() outcome")
    return len(urecs), rej


def run_sub(ctx):
    emitted = run_model(ctx)
    # (a) value level
    ccases = emitted + py_contains_cases()
    couts = replay_contains(ctx, ccases)
    good = judge_contains(ctx, couts)
    crecs = contains_trace_recs(good)
    # (b) end to end
    cfgs = CFGS_QUICK if ctx.tier == "quick" else CFGS_THOROUGH
    cases = gen_cases(ctx)
    outs = run_e2e(ctx, cases, cfgs)
    jrecs, owner, taken = judge_e2e(ctx, cases, outs, cfgs)
    ctx.set("rtfilter_filter_published_runs_by_kind", taken)
    gate_filter_taken(taken)
    if any(taken[k] for k in ("left", "right", "full")):
        ctx.notes.append(f"rtfilter fidelity: a runtime filter was linked+published under an outer join ({taken}); the model's Eligible() "
                         "says never — answers were still judged")
    n, _ = validate(ctx, crecs + jrecs, [None] * len(crecs) + owner, "rtfilter")
    ctx.add("rtfilter_trace_records", n)
    nontriv = set()
    for c in cases:
        lk = [r[0] for r in c["tables"][0]["rows"]]
        rk = [r[0] for r in c["tables"][1]["rows"]]
        if lk and rk and (set(rk) - set(lk) or set(lk) - set(rk)):
            nontriv.add(json.dumps([c["form"], c["types"], lk, rk]))
    ctx.add("distinct_nontrivial", len(nontriv) + len({json.dumps([r["kind"], r["keys"], r["v"]]) for r in couts if r["member"] == 0 or len(r["keys"]) > 1}))
    ctx.set("rtfilter_rule", "TLC explores builder||scanner for every build/probe table over {NULL,negative,..} keys, 8 join kinds and all "
            "interleavings (7 invariants; 7 seeded mistakes refuted; 4 reachability witnesses). Bound: (a) every TLC-emitted "
            "(payload,key) pair + 64-bit corners on the real RuntimeFilterPayload::contains; (b) 11 SQL forms x key shapes x "
            "Int32/Int64 through ExecutionContext::sql over multi-row-group Parquet (filter linked+published, observed via RT_DEBUG) "
            "vs in-memory tables, each answer re-derived by RuntimeFilterTrace.tla. Non-trivial = distinct (form,types,keys) with both "
            "sides non-empty and a key on one side absent from the other, or a contains() case on a non-member / multi-key payload.")
    for c in cases[:2]:
        ctx.sample({"sql": c["sql"], "types": c["types"], "l": c["tables"][0]["rows"], "r": c["tables"][1]["rows"]})
    ctx.sample(couts[0])
    ctx.assumptions += ["rtfilter: the interleaving of build drain / publish / row-group reads is explored in the model only; the real "
                        "engine is observed under whatever schedule tokio produces (answers must be right under any)",
                        "rtfilter: 'filter taken' = planner linked the slot and the join published a payload (RT_DEBUG lines); how many "
                        "rows the decoder actually skipped is not observable through public APIs"]


# ----------------------------------------------------------------------------------------------- replay / selftest
def replay_sub(ctx, obj):
    c = obj["case"]
    if c.get("sub") == "contains":
        r = dict(c)
        r["kind"] = c.get("payload", c.get("kind"))
        outs = replay_contains(ctx, [r], "replay_contains")
        judge_contains(ctx, outs)
        ctx.sample(outs[0])
    else:
        cfgs = [CFGS_QUICK[0]] + ([c["cfg"]] if c.get("cfg") and c["cfg"]["name"] != "mem" else CFGS_THOROUGH[1:])
        cc = dict(c)
        cc["id"] = 0
        outs = run_e2e(ctx, [cc], cfgs, "replay")
        recs, owner, taken = judge_e2e(ctx, [cc], outs, cfgs)
        validate(ctx, recs, owner, "replay")
        ctx.sample({"outs": outs[0]["outs"], "rt": [m.get("rt") for m in outs[0]["meta"]]})
    ctx.add("distinct_nontrivial", 1)


def _scratch(ctx):
    """a throw-away ctx for selftests: collects violations without touching the real one"""
    s = vlib.Ctx.__new__(vlib.Ctx)
    s.__dict__.update(ctx.__dict__)
    s.cov = {"samples": []}
    s.violations, s.notes, s.known_hits, s.assumptions = [], [], {}, []
    return s


def selftest_sub(ctx):
    ok = True
    def scratch():
        return _scratch(ctx)
    # 1. a recorded answer that lost a probe row (what a wrong filter would do) must be rejected by the trace spec
    cases = [mk_case(FORMS[0], TYPES[0], *SHAPES[0]), mk_case(FORMS[9], TYPES[0], *SHAPES[1]), mk_case(FORMS[3], TYPES[0], *SHAPES[0])]
    for i, c in enumerate(cases):
        c["id"] = i
    outs = run_e2e(ctx, cases, CFGS_QUICK, "selftest")
    s = scratch()
    recs, owner, taken = judge_e2e(s, cases, outs, CFGS_QUICK)
    if s.violations or not recs:
        vlib.log("selftest: baseline not clean", s.violations[:1]); return 1
    n, rej = validate(s, recs, owner, "selftest_base")
    if rej or s.violations:
        vlib.log("selftest: baseline records rejected"); return 1
    for what, mut in (("dropped answer row", lambda a: a[1:]), ("altered answer row", lambda a: [[a[0][0] + 1] + a[0][1:]] + a[1:]),
                      ("duplicated answer row", lambda a: a + a[:1])):
        s = scratch()
        bad = [dict(r) for r in recs]
        j = next(i for i, r in enumerate(bad) if r["cfg"] != "mem" and len(r["ans"]) >= 2)
        bad[j]["ans"] = mut(bad[j]["ans"])
        validate(s, bad, owner, "selftest_corrupt")
        det = len(s.violations) == 1
        vlib.log(f"selftest: {what} in a recorded Parquet answer -> {'rejected' if det else 'NOT DETECTED'}")
        ok &= det
    # 1b. with == without comparison: corrupt the Parquet outcome itself
    s = scratch()
    o2 = json.loads(json.dumps(outs))
    o2[0]["outs"][1]["rows"] = o2[0]["outs"][1]["rows"][:-1]
    judge_e2e(s, cases, o2, CFGS_QUICK)
    det = len(s.violations) == 1
    vlib.log(f"selftest: Parquet answer != in-memory answer -> {'rejected' if det else 'NOT DETECTED'}")
    ok &= det
    # 1c. filter path never taken must be a tool error
    try:
        gate_filter_taken({"inner": 3, "semi": 0, "anti": 2})
        vlib.log("selftest: 'filter path never taken' NOT DETECTED"); ok = False
    except vlib.ToolError:
        vlib.log("selftest: 'filter path never taken' -> tool error (as required)")
    # 2. a corrupted contains() outcome must be rejected (python judge for false negatives, trace spec for any flip)
    cc = [{"kind": "bitmap", "min": -1, "nbits": 2, "on": [0, 1], "keys": [-1, 0], "v": v, "member": 1 if v in (-1, 0) else 0,
           "exp": 1 if v in (-1, 0) else 0} for v in (-2, -1, 0, 1)]
    couts = replay_contains(ctx, cc, "selftest_contains")
    s = scratch()
    if len(judge_contains(s, couts)) != 4 or s.violations:
        vlib.log("selftest: contains baseline not clean"); return 1
    flipped = json.loads(json.dumps(couts))
    flipped[1]["got"] = 0            # build key -1 reported absent
    s = scratch()
    judge_contains(s, flipped)
    det = len(s.violations) == 1
    vlib.log(f"selftest: contains(build key) flipped to false -> {'rejected' if det else 'NOT DETECTED'}")
    ok &= det
    flipped = json.loads(json.dumps(couts))
    flipped[0]["got"] = 1            # non-member reported present: only the trace spec (exactness) sees it
    s = scratch()
    validate(s, contains_trace_recs(flipped), [None] * 4, "selftest_contains")
    det = len(s.violations) == 1
    vlib.log(f"selftest: contains(non-member) flipped to true in the trace -> {'rejected' if det else 'NOT DETECTED'}")
    ok &= det
    # 3. the seeded spec mistakes
    bad = run_mutants()
    vlib.log(f"selftest: {len(MUTANTS) - len(bad)}/{len(MUTANTS)} seeded spec mistakes refuted by TLC" + (f"; survivors {bad}" if bad else ""))
    ok &= not bad
    return 0 if ok else 1
