"""X04 — stand-alone wrapper of the sub-model "Typing" (checks/typing_sub.py; parent property C30, tie to C01).

./check X04 --tier quick|thorough|--selftest|--replay <file>.  Evidence goes to work/evidence_extra/X04.json.
Under X04 both contracts are verdicts: (a) reported type == batch type (C30) and (b) values (C01).
Inside the parent check the lead calls typing_sub.run_sub(ctx) and routes replay files whose
obj["case"]["kind"] == "typing" to typing_sub.replay_sub(ctx, obj).  (The module is typing_sub.py, not typing.py:
checks/ is first on sys.path and a checks/typing.py would shadow the standard library's typing for every check.)"""
import typing_sub as _t
LEVEL = "model_checking"


def run(ctx):
    _t.run_sub(ctx)
    ctx.set("rule", ctx.cov.get("typing_rule", ""))
    ctx.cov.setdefault("distinct_nontrivial", 0)
    ctx.cov.setdefault("evaluations", 0)
    ctx.cov.setdefault("traces_validated_against_impl", 0)
    if ctx.tier == "thorough":
        bad = _t.run_mutants(ctx)
        if bad:
            import vlib
            raise vlib.ToolError(f"seeded spec mistakes not refuted by the laws: {bad}")
        ctx.set("typing_model_negative_runs", len(_t.MUTANTS))


def replay(ctx, obj):
    _t.replay_sub(ctx, obj)
    ctx.cov.setdefault("evaluations", 0)


def selftest(ctx):
    return _t.selftest_sub(ctx)
