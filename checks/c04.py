"""C04 — Storage layout and fast-path choice never change an answer (configuration matrix judged by SqlSem.tla)."""
import sqlprop, sqlcheck
LEVEL = "model_checking"


def run(ctx):
    sqlprop.run_sql_property(ctx, corpus=['cjoins', 'agg', 'big', 'aggwide', 'noalias'], seeded=[], cfgs=sqlprop.LAYOUTS, quick_n=70, thorough_n=1200,
        envs=None, cross=sqlprop.cross_success_consistency(),
        rule='Each (statement, database) of the corpus is run with the table registered in memory and as Parquet in several file/row-group layouts, plus the streaming-scan and no-prescan planner paths (verification switches); every outcome is judged by TLC against SqlSem, and a statement answering under one layout must not error under another.')

def replay(ctx, obj):
    sqlcheck.replay_sql(ctx, obj)

def selftest(ctx):
    return sqlprop.selftest(ctx, [])
