"""X02 "DistPlan" — sub-model of C09: the distribution PLANNER (src/distributed/plan.rs, gather.rs).

    run_sub(ctx)        model check + conformance inside the parent check (ctx.pid = C09) or stand-alone (X02)
    replay_sub(ctx, o)  re-run one replay file of this module (o["case"]["kind"] == "distplan")
    selftest_sub(ctx)   0 iff every corrupted record and every planner mutant is rejected

(M)  spec/DistPlan.tla models plan_distributed step by step on a feature record of the statement and, independently,
     says when a strategy is exact (Exact: fragment on every shard of every sharding of every small table, merge,
     compare with SqlSem).  TLC checks Plan(f) in {s : Exact(s, f)} U {Refuse} over the feature space and that the
     chosen merge query binds; as-built configurations show the four shapes where the unchanged planner is wrong.
(R)  spec -> code: TLC emits every feature record with its statement (SqlSem AST).  The statement is rendered to SQL,
     its features are re-extracted from the TEXT and its AST re-bound from the TEXT (both must agree with TLC's), and
     `qev distplan-run` asks the REAL plan_distributed / plan_gather for its decision.
(V)  code -> spec: the recorded fragment SQL and merge SQL are parsed back into a pipeline and spec/DistPlanTrace.tla
     decides whether THAT pipeline is exact for the statement (same ExactOn as the model); the statement is also run
     end to end over adversarially placed rows and every distributed answer must be one SqlSem allows (or the
     single-node answer).  Rejections on the four listed shapes are KNOWN-FINDINGs, anything else is a VIOLATION.
"""
import concurrent.futures as cf
import collections
import hashlib
import json
import os
import random
import re
import sys
import time

if __name__ == "__main__":
    _root = os.path.dirname(os.path.dirname(os.path.abspath(__file__)))
    sys.path.insert(0, os.path.join(_root, "lib"))
    sys.path.insert(0, os.path.join(_root, "checks"))
import vlib
from vlib import ToolError, log
import distplan_sql as ds

NAME = "distplan"
NULL = vlib.NULL
F_WRAP = "C09/distplan-limit-plus-offset-wraps"
F_SHADOW = "C09/distplan-groupby-alias-shadows-column"
F_QUAL = "C09/distplan-topn-merge-names-missing-columns"
F_GSUB = "C09/distplan-gather-misses-scalar-subquery-table"
KNOWN = {"wrap": F_WRAP, "shadow": F_SHADOW, "qualtopn": F_QUAL, "gathersubq": F_GSUB}
WRONG_ROWS = {"wrap", "shadow"}          # shapes whose finding is a wrong ANSWER
ERRORS = {"qualtopn", "gathersubq"}      # shapes whose finding is an error where the single node answers
MUTANTS = ["OffsetNotAdded", "HavingPerShard", "CountDistinctSummed", "AvgOfAvgs", "CountByCount", "GroupedTopNPushdown",
           "DistinctAsConcat", "NullSideSharded", "SubqueryTableSharded", "DerivedLimitAllowed", "TopNNoShardOrder"]
ASBUILT = [("shadow", "Sound"), ("wrap", "Sound"), ("qualtopn", "Runs"), ("gathersubq", "Runs")]
NOFINAL = {"gon": 0, "keys": [], "aggs": [], "divs": [], "having": ds.TRUEX, "proj": [], "order": [], "limit": -1, "offset": 0}
DUMMY = {"k": "select", "from": {"k": "table", "name": "t"}, "where": ds.TRUEX, "group": {"on": 0}, "proj": [], "distinct": 0,
         "order": [], "limit": -1, "offset": 0}
_CASE = re.compile(r'^<<"([A-Z]+)", (".*")>>$')


# ======================================================================================= TLC helpers
def _tlc(module, cfg, tag, *, workers=6, timeout=3000, env=None, retry=True):
    """run_tlc; a metadir removed under a running TLC (shared work/tlc) is retried once"""
    res = vlib.run_tlc(module, cfg, workers=workers, timeout=timeout, env=env, tag=tag)
    if retry and res.error and ("pool file" in res.error or "metadir" in res.error.lower()):
        res = vlib.run_tlc(module, cfg, workers=workers, timeout=timeout, env=env, tag=tag)
    return res


def _spec_hash():
    h = hashlib.sha1()
    for fn in ("DistPlan.tla", "SqlSem.tla"):
        h.update(open(os.path.join(vlib.SPEC, fn), "rb").read())
    return h.hexdigest()[:16]


def emit_cases(ctx, tier):
    """every feature record of the tier's space with Stmt(f) and the model's plans (cached per spec text)"""
    cache = os.path.join(vlib.WORK, "X02cache")
    os.makedirs(cache, exist_ok=True)
    path = os.path.join(cache, f"emit-{tier}-{_spec_hash()}.ndjson")
    if os.path.exists(path):
        return vlib.read_ndjson(path), None
    res = _tlc("DistPlan", f"DistPlan_emit_{tier}.cfg", f"{ctx.pid}-distplan-emit", workers=2, timeout=1800)
    if res.error or res.violated:
        log(res.out[-3000:])
        raise ToolError(f"DistPlan emit run failed: {res.error or res.violated}")
    cases = res.cases
    if not cases:
        raise ToolError("DistPlan emitted no feature record")
    tmp = path + f".{os.getpid()}"
    vlib.write_ndjson(tmp, cases)
    os.replace(tmp, path)
    return cases, res


# ======================================================================================= statements
def canon(f):
    """feature fields that do not show in the statement text are normalised (both sides)"""
    f = dict(f)
    if f["ord"] == "none":
        f["desc"] = 0
        f["ordform"] = "name"
    if f["fam"] == "agg":
        if f["ord"] == "k" and f["ordform"] == "expr":
            f["ordform"] = "name"            # ORDER BY k: the key's own name and its expression are the same text
        f["proj"] = "kv"
        f["selform"] = "name"
    else:
        f["aggs"] = []
        f["grpform"] = "col"
    if f["grp"] == 0:
        f["grpform"] = "col"
    return f


def _norm_ast(x):
    if isinstance(x, dict):
        if x.get("f") == "count*":
            x = dict(x)
            x["a"] = {"k": "col", "d": 0, "i": 1}
        return {k: _norm_ast(v) for k, v in x.items()}
    if isinstance(x, list):
        return [_norm_ast(v) for v in x]
    return x


def build_statements(cases):
    """render every feature record; re-derive features and AST from the TEXT; group by text"""
    by_sql = {}
    for c in cases:
        f, q = c["f"], c["q"]
        try:
            sql, names, units = ds.render(q, f)
            f2 = ds.features_of(sql)
            q2, n2, u2 = ds.bind_statement(ds.parse(sql))
        except ds.Unsupported as e:
            raise ToolError(f"distplan: cannot render / re-read the statement of {f}: {e}")
        if canon(f) != canon(f2):
            raise ToolError(f"distplan: features re-extracted from the text differ from TLC's for `{sql}`: "
                            f"{ {k: (canon(f)[k], canon(f2)[k]) for k in f if canon(f)[k] != canon(f2)[k]} }")
        if _norm_ast(q) != _norm_ast(q2) or names != n2 or units != u2:
            raise ToolError(f"distplan: the statement text `{sql}` does not bind back to Stmt(f)")
        s = by_sql.get(sql)
        if s is None:
            by_sql[sql] = {"sql": sql, "f": f, "fs": [f], "q": q, "usesd": c["usesd"], "known": list(c["known"]), "plans": c["plans"],
                           "units": units, "names": names}
        else:
            s["fs"].append(f)
            if sorted(s["known"]) != sorted(c["known"]):
                raise ToolError(f"distplan: one text, two known-shape verdicts: {sql}")
    out = list(by_sql.values())
    for i, s in enumerate(out):
        s["i"] = i
    return out


def class_key(s):
    f = s["f"]
    return (tuple(sorted({p["shape"] for p in s["plans"]})), f["fam"], f["src"], f["sub"], f["wrap"], tuple(s["known"]), f["hav"], f["grpform"],
            f["ord"] != "none", (f["lim"] if f["lim"] in (-1, ds.U - 1) else 1), f["off"] > 0, f["selx"],
            tuple(a["fn"] + ("d" if a["dist"] else "") for a in f["aggs"])[:1])


def sample(stmts, n, rng, must=lambda s: False):
    """one statement per class first (so every shape of the space is met), then a seeded fill"""
    groups = collections.OrderedDict()
    for s in stmts:
        groups.setdefault(class_key(s), []).append(s)
    picked = [g[rng.randrange(len(g))] for g in groups.values()]
    if len(picked) > n:
        keep = [s for s in picked if must(s)]
        rest = [s for s in picked if not must(s)]
        rng.shuffle(rest)
        picked = keep + rest[:max(0, n - len(keep))]
    chosen = {s["i"] for s in picked}
    rest = [s for s in stmts if s["i"] not in chosen]
    rng.shuffle(rest)
    picked += rest[:max(0, n - len(picked))]
    return sorted(picked, key=lambda s: s["i"])


# ======================================================================================= data
DIMS = [[[0, 1], [0, 2], [2, 1]], [[1, 1], [1, 3], [3, 2], [0, 2]], [[0, 1]]]


def dataset(rng):
    n = rng.choice([4, 5, 6, 6])
    t = [[rng.choice([0, 0, 1, 1, 2]), rng.choice([NULL, 0, 1, 1, 2, 2, 3])] for _ in range(n)]
    d = [list(r) for r in rng.choice(DIMS)]
    return t, d


def harness_case(cid, sql, units, t, d, nodes, exec_):
    return {"id": cid, "sql": sql, "out_types": units, "nodes": nodes, "exec": exec_,
            "tables": [{"name": "t", "cols": [["k", "int"], ["v", "int"]], "rows": t, "files": 1, "rg": 1},
                       {"name": "d", "cols": [["k2", "int"], ["w", "int"]], "rows": d, "files": 1, "rg": 1}]}


def run_harness(ctx, cases, tag, procs=4):
    if not cases:
        return {}
    procs = max(1, min(procs, len(cases) // 8 or 1))
    chunks = [cases[i::procs] for i in range(procs)]

    def one(j):
        inp = os.path.join(ctx.work, f"{tag}-{j}.in.ndjson")
        outp = os.path.join(ctx.work, f"{tag}-{j}.out.ndjson")
        vlib.write_ndjson(inp, chunks[j])
        wd = os.path.join(ctx.work, f"{tag}-{j}.wd")
        os.makedirs(wd, exist_ok=True)
        p = vlib.qev(["distplan-run", inp, outp, wd], timeout=3000, check=False)
        if p.returncode != 0:
            log(p.stderr[-3000:])
            raise ToolError(f"qev distplan-run exited {p.returncode}")
        return vlib.read_ndjson(outp)
    out = {}
    with cf.ThreadPoolExecutor(procs) as ex:
        for recs in ex.map(one, range(procs)):
            for r in recs:
                out[r["id"]] = r
    if len(out) != len(cases):
        raise ToolError(f"distplan-run answered {len(out)} of {len(cases)} cases")
    return out


# ======================================================================================= decisions -> records
def pipeline_of(plan):
    """the recorded decision as a DistPlan pipeline: (shape, table, partial AST, final record) or raises Unsupported"""
    if plan["k"] == "plan":
        past, pn, pu = ds.bind_fragment(plan["partial_sql"])
        fs = ds.final_spec(plan["final_sql"], pn, pu) if plan.get("final_sql") else NOFINAL
        return plan["shape"], plan["table"], past, fs
    if plan["k"] == "refuse" and plan["gather"]["k"] == "gather":
        tabs = [t["name"] for t in plan["gather"]["tables"]]
        return "Gather", ("t" if "t" in tabs else tabs[0]), DUMMY, NOFINAL
    raise ds.Unsupported(f"no pipeline for outcome {plan['k']}")


def summary_of(shape, table, past, fs):
    return {"shape": "Refuse" if shape == "Gather" else shape, "table": table, "shardlimit": past.get("limit", -1) if shape != "Gather" else -1,
            "shardorder": len(past.get("order", [])) if shape != "Gather" else 0, "merges": sorted({a["f"] for a in fs["aggs"]}),
            "ndivs": min(len(fs["divs"]), 1), "flimit": fs["limit"], "foffset": fs["offset"]}


def model_summaries(s):
    return [{"shape": p["shape"], "table": p["table"], "shardlimit": p["shardlimit"], "shardorder": p["shardorder"],
             "merges": sorted(set(p["merges"])), "ndivs": min(p["ndivs"], 1), "flimit": p["flimit"], "foffset": p["foffset"]} for p in s["plans"]]


def known_for(ctx, s, flavour):
    """the listed finding that explains a rejection of statement s (flavour: 'rows' | 'error'), or None"""
    for nm in s["known"]:
        if (nm in WRONG_ROWS) == (flavour == "rows") and ctx.is_known(KNOWN[nm]):
            return KNOWN[nm]
    return None


def trace_validate(ctx, recs, tag, workers=8):
    """-> (rejects by id, sens set of (id, n), single-bad ids, TlcResult)"""
    if not recs:
        return {}, set(), set(), None
    path = os.path.join(ctx.work, f"{tag}.trace.ndjson")
    vlib.write_ndjson(path, recs)
    res = _tlc("DistPlanTrace", "DistPlanTrace.cfg", f"{ctx.pid}-distplan-{tag}", workers=workers, timeout=3000, env={"TRACE": path})
    if res.error or res.violated:
        log(res.out[-4000:])
        raise ToolError(f"DistPlanTrace did not complete: {(res.error or res.violated)[:300]}")
    done = [r for (k, r) in res.prints if k == "DONE"]
    if not done or done[0]["n"] != len(recs):
        log(res.out[-3000:])
        raise ToolError("DistPlanTrace did not judge every record")
    rej, sens, sbad = {}, set(), set()
    for (k, r) in res.prints:
        if k == "REJECT":
            rej.setdefault(r["id"], r)
        elif k == "SENS":
            sens.add((r["id"], r["n"]))
        elif k == "SINGLE":
            sbad.add(r["id"])
    return rej, sens, sbad, res


def replay_case(s, what, extra):
    return {"kind": NAME, "what": what, "sql": s["sql"], "f": s["f"], "q": s["q"], "usesd": s["usesd"], "known": s["known"], **extra}


# ======================================================================================= the conformance loop
def conformance(ctx, stmts, plan_sel, e2e_sel, data_name, st, max_records=None, rng=None):
    """plan_sel: statements whose decision is recorded and trace-validated; e2e_sel: [(statement, t rows, d rows)] executed end to end"""
    T0, D0 = [[0, 1], [1, 2]], [[0, 1]]
    hcases, meta = [], {}
    for s in plan_sel:
        cid = f"p{s['i']}"
        hcases.append(harness_case(cid, s["sql"], s["units"], T0, D0, [], False))
        meta[cid] = (s, None, None)
    for j, (s, t, d) in enumerate(e2e_sel):
        cid = f"e{s['i']}-{j}"
        hcases.append(harness_case(cid, s["sql"], s["units"], t, d, [2, 3], True))
        meta[cid] = (s, t, d)
    t0 = time.time()
    outs = run_harness(ctx, hcases, f"{NAME}-run")
    st["harness_s"] = round(time.time() - t0, 1)
    ctx.add("evaluations", len(hcases))
    st["planner_calls"] = len(hcases)

    # ---- (R) the decision the real planner took vs the model's, and the pipeline it built
    recs, rec_stmts = [], {}
    by_key = {}
    shapes = collections.Counter()
    drift = collections.Counter()
    for cid, (s, t, d) in meta.items():
        if t is not None:
            continue
        plan = outs[cid]["plan"]
        if plan["k"] in ("err", "panic"):
            # the statement does not plan at all (the local engine does not bind it either: checked end to end below)
            shapes["unplannable:" + plan.get("cls", plan["k"])] += 1
            if len(st.setdefault("unplannable", [])) < 5:
                st["unplannable"].append(s["sql"])
            continue
        try:
            shape, table, past, fs = pipeline_of(plan)
        except ds.Unsupported as e:
            if plan["k"] == "refuse":        # refused and not gatherable: an error outcome, judged end to end
                shapes["refuse-ungatherable"] += 1
                continue
            raise ToolError(f"distplan: cannot read the planner's plan for `{s['sql']}`: {e} | {plan.get('partial_sql')} | {plan.get('final_sql')}")
        shapes[shape] += 1
        summ = summary_of(shape, table, past, fs)
        if s["plans"] and summ not in model_summaries(s):
            ms = model_summaries(s)
            kind = "strategy" if summ["shape"] not in {m["shape"] for m in ms} else "detail"
            drift[kind] += 1
            if len(ctx.notes) < 12:
                ctx.notes.append(f"distplan drift ({kind}): `{s['sql']}` model {ms} code {summ}")
        # OFFSET 2 / LIMIT 2 only bite on tables of >= 3 rows
        data = "rows3" if (data_name == "small" and (s["f"]["off"] >= 2 or s["f"]["lim"] == 2)) else data_name
        rec = {"kind": "plan", "q": s["q"], "usesd": s["usesd"], "data": data, "table": table, "shape": shape, "partial": past, "final": fs}
        key = json.dumps(rec, sort_keys=True)
        if key in by_key:
            rec_stmts[by_key[key]].append(s)
            continue
        rec["id"] = len(recs)
        by_key[key] = rec["id"]
        rec_stmts[rec["id"]] = [s]
        recs.append(rec)
    st["decisions"] = dict(shapes)
    st["drift"] = dict(drift)
    st["distinct_decisions"] = len(recs)
    if max_records is not None and len(recs) > max_records:
        # judge one decision per statement class, a few of every listed shape, and a seeded fill
        groups = collections.OrderedDict()
        for r in recs:
            groups.setdefault(class_key(rec_stmts[r["id"]][0]) + (r["shape"], r["table"]), []).append(r)
        keep = [g[rng.randrange(len(g))] for g in groups.values()]
        chosen = {r["id"] for r in keep}
        rest = [r for r in recs if r["id"] not in chosen]
        rng.shuffle(rest)
        keep = (keep + rest)[:max(max_records, 0)] if len(keep) < max_records else keep[:max_records]
        keep.sort(key=lambda r: r["id"])
        old_stmts = rec_stmts
        recs, rec_stmts = [], {}
        for r in keep:
            ss = old_stmts[r["id"]]
            r["id"] = len(recs)
            rec_stmts[r["id"]] = ss
            recs.append(r)

    # ---- end-to-end records
    erecs, emeta = [], {}
    eskip = collections.Counter()
    for cid, (s, t, d) in meta.items():
        if t is None:
            continue
        o = outs[cid]
        single = o.get("single", {"k": "none"})
        if single["k"] != "rows":
            eskip["single:" + single["k"] + ":" + single.get("cls", "")] += 1
            continue
        dist = []
        for dd in o.get("dist", []):
            a = dd["out"]
            if a["k"] == "rows":
                pl = dd.get("placement", {})
                shards = [sh["rows"] for sh in pl.get("shards", []) if not sh.get("idle")] if pl.get("k") == "ok" else []
                dist.append({"n": dd["n"], "rows": a["rows"], "ptable": pl.get("table", "none") if pl.get("k") == "ok" else "none", "shards": shards})
            elif a["k"] == "err" and a.get("cls") == "NotImplemented":
                eskip["refused"] += 1
            else:
                # an error / panic / hang where the single node answers
                fid = known_for(ctx, s, "error")
                ex = {"sql": s["sql"], "n": dd["n"], "outcome": {k: a.get(k) for k in ("k", "cls", "msg")}, "shape": o["plan"].get("shape", o["plan"]["k"])}
                if fid:
                    ctx.known(fid, ex)
                    eskip["known-error"] += 1
                else:
                    ctx.violation(replay_case(s, "e2e", {"t": t, "d": d, "nodes": [dd["n"]], "observed": ex}),
                                  f"distplan: the distributed run of `{s['sql']}` on {dd['n']} nodes fails with {a.get('cls', a['k'])}: {a.get('msg', '')[:160]} "
                                  f"while the single node answers {single['rows'][:6]}")
        if not dist:
            continue
        rec = {"kind": "e2e", "id": len(recs) + len(erecs), "q": s["q"], "db": {"t": t, "d": d}, "single": single["rows"], "dist": dist}
        emeta[rec["id"]] = (s, t, d, o)
        erecs.append(rec)
    st["e2e_skipped"] = dict(eskip)

    # ---- (V) TLC judges every record
    t0 = time.time()
    rej, sens, sbad, res = trace_validate(ctx, recs + erecs, f"{NAME}-{data_name}")
    st["trace_s"] = round(time.time() - t0, 1)
    if res is not None:
        ctx.tlc_stats(res, f"DistPlanTrace: {len(recs)} recorded planner decisions (fragment + merge SQL parsed back) judged exact / inexact over every "
                           f"'{data_name}' database and placement; {len(erecs)} end-to-end runs judged by SqlSem")
        ctx.add("traces_validated_against_impl", 1)
        ctx.add("trace_events_validated", len(recs) + len(erecs))
    nontrivial = 0
    for r in recs:
        ss = rec_stmts[r["id"]]
        if r["shape"] in ("TopN", "TwoPhase"):
            nontrivial += 1
        if r["id"] in rej:
            cex = rej[r["id"]]
            for s in ss:
                fid = known_for(ctx, s, "rows")
                ex = {"sql": s["sql"], "strategy": r["shape"], "table": r["table"], "counterexample": {"t": cex["T"], "d": cex["D"]}}
                if fid:
                    ctx.known(fid, ex)
                    st["known_plan_rejects"] = st.get("known_plan_rejects", 0) + 1
                else:
                    ctx.violation(replay_case(s, "plan", {"recorded": {k: r[k] for k in ("table", "shape", "partial", "final")}, "data": data_name, "counterexample": cex}),
                                  f"distplan: the planner answers `{s['sql']}` with strategy {r['shape']} (table {r['table']}), and that fragment/merge pipeline is "
                                  f"NOT exact: on t = {cex['T']}, d = {cex['D']} some placement of the rows yields an answer SqlSem does not allow")
        else:
            for s in ss:
                if any(nm in WRONG_ROWS for nm in s["known"]):
                    st["known_not_reproduced"] = st.get("known_not_reproduced", 0) + 1
                    if len(st.setdefault("known_not_reproduced_eg", [])) < 6:
                        st["known_not_reproduced_eg"].append({"sql": s["sql"], "strategy": r["shape"], "fragment_limit": r["partial"].get("limit")})
    for r in erecs:
        s, t, d, o = emeta[r["id"]]
        if r["id"] in sbad:
            st["single_node_answer_not_allowed"] = st.get("single_node_answer_not_allowed", 0) + 1
            if len(st.setdefault("single_node_answer_not_allowed_eg", [])) < 4:
                st["single_node_answer_not_allowed_eg"].append({"sql": s["sql"], "t": t, "d": d, "single_node": r["single"]})
        for dd in r["dist"]:
            if (r["id"], dd["n"]) in sens:
                nontrivial += 1
                st["e2e_merge_matters"] = st.get("e2e_merge_matters", 0) + 1
        if r["id"] in rej:
            x = rej[r["id"]]
            got = next((dd["rows"] for dd in r["dist"] if dd["n"] == x["n"]), None)
            fid = known_for(ctx, s, "rows")
            ex = {"sql": s["sql"], "t": t, "d": d, "nodes": x["n"], "distributed": got, "single_node": r["single"], "a_correct_answer": x["want"]}
            if fid:
                ctx.known(fid, ex)
                st["known_e2e_rejects"] = st.get("known_e2e_rejects", 0) + 1
            else:
                ctx.violation(replay_case(s, "e2e", {"t": t, "d": d, "nodes": [x["n"]], "observed": ex}),
                              f"distplan: `{s['sql']}` over t = {t}, d = {d} on {x['n']} nodes answers {got}; the single node answers {r['single']} "
                              f"and SqlSem allows e.g. {x['want']}")
    ctx.add("distinct_nontrivial", nontrivial)
    st["plan_records"] = len(recs)
    st["e2e_records"] = len(erecs)
    ctx.sample({"distplan": [{"sql": rec_stmts[r["id"]][0]["sql"], "strategy": r["shape"], "table": r["table"]} for r in recs[:3]]})
    return recs, erecs


# ======================================================================================= model runs
def model_jobs(tier):
    if tier == "quick":
        return [("DistPlan_quick.cfg", "quick feature space x every table (multiset of rows) of <= 2 rows over {0,1} x {NULL,1,2}, 2 dimension tables, 2 shards")]
    return [("DistPlan_thorough.cfg", "full feature space x every table of <= 2 rows, 4 dimension tables, 2 shards, refusals judged as gathers"),
            ("DistPlan_thorough_rows3.cfg", "quick feature space x every table (multiset of rows) of <= 3 rows"),
            ("DistPlan_thorough_nullkey.cfg", "quick feature space x every table (multiset of rows) of <= 2 rows with NULL keys and 0 values")]


def run_models(ctx, tier, st):
    jobs = model_jobs(tier)

    def one(job):
        cfg, what = job
        res = _tlc("DistPlan", cfg, f"{ctx.pid}-distplan-{cfg[:-4]}", workers=6 if tier == "quick" else 5, timeout=3000)
        return job, res
    out = []
    with cf.ThreadPoolExecutor(len(jobs)) as ex:
        for job, res in ex.map(one, jobs):
            out.append((job, res))
    return out


def run_negatives(ctx, names, par=3):
    """configurations TLC must REJECT: (cfg, expected invariant) -> list of failures"""
    def one(item):
        cfg, inv = item
        res = _tlc("DistPlan", cfg, f"{ctx.pid}-distplan-neg-{cfg[:-4]}", workers=3, timeout=3000)
        return cfg, inv, res
    bad = []
    with cf.ThreadPoolExecutor(par) as ex:
        for cfg, inv, res in ex.map(one, names):
            if res.violated != inv:
                bad.append(f"{cfg}: expected {inv} to be violated, got {res.violated or res.error or 'no error'}")
    return bad


# ======================================================================================= entry points
def run_sub(ctx):
    tier = ctx.tier
    st = {"tier": tier}
    rng = random.Random(ctx.seed * 7919 + 17)
    t_all = time.time()
    with cf.ThreadPoolExecutor(2) as ex:
        fut_models = ex.submit(run_models, ctx, tier, st)
        fut_neg = ex.submit(run_negatives, ctx, [(f"DistPlan_asbuilt_{n}.cfg", inv) for (n, inv) in ASBUILT] +
                            [(f"DistPlan_mut_{m}.cfg", "Sound") for m in MUTANTS]) if tier == "thorough" else None
        # ---- spec -> code -> spec
        cases, eres = emit_cases(ctx, tier)
        if eres is not None:
            ctx.tlc_stats(eres, f"DistPlan emit: {len(cases)} feature records with their statements and model plans")
        stmts = build_statements(cases)
        st["feature_records"] = len(cases)
        st["distinct_statements"] = len(stmts)
        known_reps = []
        for nm in KNOWN:                           # two statements per listed shape are always run end to end
            reps = [s for s in stmts if nm in s["known"]]
            rng.shuffle(reps)
            known_reps += reps[:2]
        sound = [s for s in stmts if not s["known"]]
        if tier == "quick":
            plan_sel = sample(stmts, 110, rng, must=lambda s: bool(s["known"]))
            e2e_stmts = known_reps + sample(sound, 36, rng)
            per = 1
        else:
            plan_sel = stmts
            e2e_stmts = known_reps + sample(sound, 320, rng)
            per = 2
        e2e_sel = []
        for s in e2e_stmts:
            for _ in range(per):
                t, d = dataset(rng)
                e2e_sel.append((s, t, d))
        conformance(ctx, stmts, plan_sel, e2e_sel, "small", st, max_records=None if tier == "quick" else 560, rng=rng)
        # ---- model results
        for (cfg, what), res in fut_models.result():
            vlib.tlc_must_pass(res, f"DistPlan/{cfg}")
            ctx.tlc_stats(res, f"DistPlan {cfg}: Plan(f) is exact or a refusal, and its merge query binds - {what}")
            if res.distinct < 500:
                raise ToolError(f"DistPlan/{cfg} explored only {res.distinct} states (vacuous)")
        if fut_neg is not None:
            bad = fut_neg.result()
            if bad:
                raise ToolError("distplan: a configuration TLC must reject was accepted (the model lost a mutant / a known defect): " + "; ".join(bad))
            st["negative_configurations_rejected"] = len(ASBUILT) + len(MUTANTS)
    # vacuity: every strategy must have been met on the real planner
    seen = st.get("decisions", {})
    for shape in ("Concat", "TopN", "TwoPhase", "Gather"):
        if not seen.get(shape):
            raise ToolError(f"distplan: the real planner never chose {shape} on the sampled statements (vacuous)")
    if not st.get("e2e_merge_matters"):
        raise ToolError("distplan: no end-to-end run placed rows so that the merge step matters (vacuous)")
    st["wall_s"] = round(time.time() - t_all, 1)
    st["rule"] = ("distinct (statement, recorded planner decision) pairs whose strategy has a merge step (TopN / TwoPhase), each judged exact or not by TLC over "
                  "every small database and placement, plus end-to-end (statement, data, cluster size) runs on which the concatenation of the shards' "
                  "own answers is NOT an allowed answer (the merge step matters)")
    ctx.set(NAME, st)


def replay_sub(ctx, obj):
    """re-plan / re-run exactly the replay file's statement (and data) and re-judge it with TLC"""
    case = obj["case"]
    s = {"sql": case["sql"], "f": case["f"], "fs": [case["f"]], "q": case["q"], "usesd": case["usesd"], "known": case.get("known", []), "i": 0,
         "plans": [], "units": ds.render(case["q"], case["f"])[2]}
    st = {}
    if case["what"] == "plan":
        conformance(ctx, [s], [s], [], case.get("data", "small"), st)
    else:
        conformance(ctx, [s], [], [(s, case["t"], case["d"])], "small", st)
    ctx.set(NAME, st)


# ======================================================================================= selftest
def selftest_sub(ctx):
    """0 iff every corruption of a recorded decision / answer and every planner mutant is rejected"""
    bad = []
    rng = random.Random(5)
    cases, _ = emit_cases(ctx, "quick")
    stmts = build_statements(cases)

    def find(pred):
        for s in stmts:
            if pred(s["f"]) and not s["known"]:
                return s
        raise ToolError("selftest: statement shape missing from the space")
    s_hav = find(lambda f: f["fam"] == "agg" and f["hav"] == "alias" and f["grp"] == 1 and f["sub"] == "none")          # gathered (HAVING <alias>)
    s_top = find(lambda f: f["fam"] == "plain" and f["ord"] == "v" and f["lim"] == 1 and f["off"] == 1 and f["src"] == "t" and f["sub"] == "none"
                 and f["wrap"] == "none" and f["ordform"] == "name" and f["selform"] == "name" and f["wh"] == 0 and f["proj"] == "kv")
    s_cnt = find(lambda f: f["fam"] == "agg" and f["grp"] == 1 and [a["fn"] for a in f["aggs"]] == ["count*"] and f["hav"] == "none" and f["src"] == "t"
                 and f["sub"] == "none" and f["ord"] == "none" and f["lim"] == -1 and f["off"] == 0 and f["grpform"] == "col" and f["selx"] == "plain" and f["wrap"] == "none")
    sel = [s_hav, s_top, s_cnt]
    T = [[0, 3], [1, 1], [0, 2], [1, 2], [0, 1], [2, 0]]
    D = [[0, 1]]
    hc = [harness_case(f"s{j}", s["sql"], s["units"], T, D, [2], True) for j, s in enumerate(sel)]
    outs = run_harness(ctx, hc, f"{NAME}-selftest", procs=1)
    recs = []
    expect = {}

    def add(rec, want, what):
        rec["id"] = len(recs)
        recs.append(rec)
        expect[rec["id"]] = (want, what)
    for j, s in enumerate(sel):
        o = outs[f"s{j}"]
        shape, table, past, fs = pipeline_of(o["plan"])
        base = {"kind": "plan", "q": s["q"], "usesd": s["usesd"], "data": "small", "table": table, "shape": shape, "partial": past, "final": fs}
        add(dict(base), "accept", f"genuine decision {shape} for `{s['sql']}`")
        if s is s_hav:
            if shape != "Gather":
                bad.append(f"selftest: `{s['sql']}` expected to be gathered, got {shape}")
            # relabel the Gather as a scatter of the statement itself (each shard applies HAVING to its own groups)
            frag = ds.bind_fragment(s["sql"])[0]
            add(dict(base, shape="Concat", partial=frag, final=NOFINAL), "reject", "Gather relabelled as Concat for a HAVING statement")
            add(dict(base, shape="TopN", partial=frag, final=dict(NOFINAL, proj=[ds.Col(1), ds.Col(2)])), "reject", "Gather relabelled as TopN for a HAVING statement")
        if s is s_top:
            worse = json.loads(json.dumps(past))
            worse["limit"] = 1                                  # OFFSET not added to the shard limit
            add(dict(base, partial=worse), "reject", "recorded shard LIMIT lowered from limit+offset to limit")
            noord = json.loads(json.dumps(past))
            noord["order"] = []
            add(dict(base, partial=noord, data="rows3"), "reject", "recorded fragment loses its ORDER BY (judged over tables of <= 3 rows)")
        if s is s_cnt:
            f2 = json.loads(json.dumps(fs))
            f2["aggs"][0]["f"] = "count"                        # COUNT merged by COUNT
            add(dict(base, final=f2), "reject", "recorded merge function of COUNT changed from SUM to COUNT")
        single = o["single"]
        dist = [dd for dd in o["dist"] if dd["out"]["k"] == "rows"]
        if single["k"] == "rows" and dist:
            dd = dist[0]
            good = {"kind": "e2e", "q": s["q"], "db": {"t": T, "d": D}, "single": single["rows"],
                    "dist": [{"n": dd["n"], "rows": dd["out"]["rows"], "ptable": "none", "shards": []}]}
            add(json.loads(json.dumps(good)), "accept", f"genuine distributed answer of `{s['sql']}`")
            if dd["out"]["rows"]:
                corrupt = json.loads(json.dumps(good))
                row = corrupt["dist"][0]["rows"][0]
                row[-1] = (row[-1] if row[-1] != NULL else 0) + 5
                add(corrupt, "reject", f"one cell of the distributed answer of `{s['sql']}` changed")
                dropped = json.loads(json.dumps(good))
                dropped["dist"][0]["rows"] = dropped["dist"][0]["rows"][1:]
                add(dropped, "reject", f"one row of the distributed answer of `{s['sql']}` dropped")
    # ---- planner mutations simulated on the planner's own OUTPUT TEXT (what a changed plan.rs would hand the coordinator):
    # the texts go through the same parser / binder as real decisions
    core = lambda f: f["src"] == "t" and f["sub"] == "none" and f["wrap"] == "none" and f["ord"] == "none" and f["lim"] == -1 and f["off"] == 0 \
        and f["grpform"] == "col" and f["selx"] == "plain" and f["wh"] == 0
    s_hcnt = find(lambda f: core(f) and f["fam"] == "agg" and f["grp"] == 1 and f["hav"] == "cnt" and [a["fn"] for a in f["aggs"]] == ["sum"])
    s_avg = find(lambda f: core(f) and f["fam"] == "agg" and f["grp"] == 1 and f["hav"] == "none" and [(a["fn"], a["dist"]) for a in f["aggs"]] == [("avg", 0)])
    s_cd = find(lambda f: core(f) and f["fam"] == "agg" and f["grp"] == 0 and f["hav"] == "none" and [(a["fn"], a["dist"]) for a in f["aggs"]] == [("count", 1)])
    sims = [
        (s_top, "TopN", "SELECT k, v FROM t ORDER BY v LIMIT 1", 'SELECT "k", "v" FROM qe_dist_partial ORDER BY "v" LIMIT 1 OFFSET 1', "small",
         "fragment text pre-truncated to LIMIT instead of LIMIT+OFFSET"),
        (s_cnt, "TwoPhase", "SELECT k AS qe_g0, COUNT(*) AS qe_a0 FROM t GROUP BY k", 'SELECT qe_g0 AS "k", COUNT(qe_a0) AS "a1" FROM qe_dist_partial GROUP BY qe_g0', "small",
         "merge text counts the partial counts"),
        (s_hcnt, "TwoPhase", "SELECT k AS qe_g0, SUM(v) AS qe_a0, COUNT(*) AS qe_a1 FROM t GROUP BY k HAVING COUNT(*) >= 2",
         'SELECT qe_g0 AS "k", SUM(qe_a0) AS "a1" FROM qe_dist_partial GROUP BY qe_g0 HAVING SUM(qe_a1) >= 2', "small", "HAVING left in the fragment text"),
        (s_avg, "TwoPhase", "SELECT k AS qe_g0, AVG(v) AS qe_a0 FROM t GROUP BY k", 'SELECT qe_g0 AS "k", AVG(qe_a0) AS "a1" FROM qe_dist_partial GROUP BY qe_g0', "rows3",
         "AVG merged as the average of the shards' averages"),
        (s_cd, "TwoPhase", "SELECT COUNT(DISTINCT v) AS qe_a0 FROM t", 'SELECT SUM(qe_a0) AS "a1" FROM qe_dist_partial', "small",
         "COUNT(DISTINCT) scattered and summed"),
        (s_hav, "TwoPhase", "SELECT k AS qe_g0, COUNT(*) AS qe_a0 FROM t GROUP BY k",
         'SELECT qe_g0 AS "k", SUM(qe_a0) AS "a1" FROM qe_dist_partial GROUP BY qe_g0 HAVING SUM(qe_a0) >= 2', "small",
         "(control) an exact two-phase plan for the HAVING statement the planner gathers"),
    ]
    for (s, shape, ptxt, ftxt, data, what) in sims:
        shp, table, past, fs = pipeline_of({"k": "plan", "shape": shape, "table": "t", "partial_sql": ptxt, "final_sql": ftxt})
        add({"kind": "plan", "q": s["q"], "usesd": s["usesd"], "data": data, "table": table, "shape": shp, "partial": past, "final": fs},
            "accept" if what.startswith("(control)") else "reject", f"simulated plan text for `{s['sql']}`: {what}")
    rej, _, _, _ = trace_validate(ctx, recs, f"{NAME}-selftest", workers=4)
    for rid, (want, what) in expect.items():
        got = "reject" if rid in rej else "accept"
        print(f"selftest distplan: {what}: {got} (expected {want})")
        if got != want:
            bad.append(f"{what}: {got}, expected {want}")
    # ---- the spec's own kill tests: planner mutants and the as-built defects must violate the invariants
    negs = [(f"DistPlan_asbuilt_{n}.cfg", inv) for (n, inv) in ASBUILT] + [(f"DistPlan_mut_{m}.cfg", "Sound") for m in MUTANTS]
    nb = run_negatives(ctx, negs, par=4)
    for (cfg, inv) in negs:
        print(f"selftest distplan: {cfg}: {'NOT rejected' if any(b.startswith(cfg) for b in nb) else 'rejected by TLC (' + inv + ')'}")
    bad += nb
    # ---- feature extraction is independent: a corrupted feature record is noticed
    c0 = json.loads(json.dumps(next(c for c in cases if c["f"]["fam"] == "agg" and c["f"]["hav"] == "cnt")))
    c0["f"]["hav"] = "none"
    try:
        build_statements([c0])
        bad.append("a feature record that disagrees with its statement was accepted")
    except ToolError:
        print("selftest distplan: feature record contradicting its statement text: noticed")
    for b in bad:
        print("selftest distplan FAILED:", b)
    return 1 if bad else 0


def main(argv):
    import argparse
    ap = argparse.ArgumentParser()
    ap.add_argument("--tier", default="quick")
    ap.add_argument("--selftest", action="store_true")
    a = ap.parse_args(argv)
    os.chdir(vlib.ROOT)
    ctx = vlib.Ctx("X02", a.tier, int(os.environ.get("VERIF_SEED", "1") or 1), "model_checking")
    if a.selftest:
        return selftest_sub(ctx)
    run_sub(ctx)
    return ctx.finish()


if __name__ == "__main__":
    sys.exit(main(sys.argv[1:]))
