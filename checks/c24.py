"""C24 — Set operations have SQL multiset semantics (SqlSem.tla as the oracle)."""
import sqlprop, sqlcheck
LEVEL = "model_checking"

def run(ctx):
    for fam in ['set']:
        sqlprop.laws(ctx, f"SqlLaws_{fam}_{ctx.tier}.cfg")
    sqlprop.run_sql_property(ctx, corpus=['setop', 'setop3', 'unionjoin'], seeded=[('single', {'setops': True, 'setop_p': 0.8, 'null_p': 0.3, 'dom': 2})], quick_n=300, seeded_quick=250,
        rule='UNION/INTERSECT/EXCEPT with and without ALL over inputs with duplicates and NULLs, with ORDER BY on top; TLC checks the multiset identities over all pairs of bags.')

def replay(ctx, obj):
    sqlcheck.replay_sql(ctx, obj)

def selftest(ctx):
    return sqlprop.selftest(ctx, ['set'])
