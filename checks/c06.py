"""C06 — compiled predicates are indistinguishable from the interpreter (CompiledExpr.tla + harness/src/compiled.rs).

(M) TLC evaluates, for every expression tree of the compiled subset in bound, BOTH evaluators row by row over a token
    table (all combinations of NULL, NaN, -0.0/+0.0, +-inf, finite values, the integer types' extremes): the interpreter
    (null-strict kernels, TOTAL order on doubles) and the compiled program as built (validity = AND of the referenced
    columns, PartialOrd on doubles), and checks they agree bit for bit except where a Float64 comparison leaf sees a NaN
    or the two zeros (named deviations); Strict=TRUE prints the counterexample, Impl="fixed" (total_cmp) agrees
    everywhere, mutant compiled evaluators are rejected.
(R) every emitted tree is built as a real Expr; real RecordBatches of 0, 1, 1023, 1024, 1025, 2049 rows (the token table
    tiled) go through the public CompiledPredicate::compile / evaluate and evaluate_expr; validity is compared bit for
    bit, values on every valid row; FilterExec over a MemoryTableExec and SQL run in two processes (default and
    QE_COMPILE=0) must keep the same rows.
CONTRACT (violation): compiled != interpreter on the real code (mask on a valid row, or validity), a panic of the
compiled evaluator, different rows kept with QE_COMPILE=0.  FIDELITY (drift note): either real evaluator vs the spec's
row function, the compile/decline decision, raw value bits under NULL.
"""
import concurrent.futures as cf
import collections, json, os, random, re
import vlib
from vlib import run_tlc, tlc_must_pass, qev, write_ndjson, read_ndjson

LEVEL = "model_checking"
NULL = vlib.NULL
OUT = 3000
FIND = {1: "C06/f64-partialord-nan", 2: "C06/f64-negative-zero"}
LENS = [0, 1, 1023, 1024, 1025, 2049]
MUTANTS = ["m_valid_or", "m_between_neg"]
VM_MUTANTS = {"m_clobber": ("FreshDst", "Refines"), "m_chunk_off": ("Refines",), "m_len": ("Refines",), "m_valid_or": ("Refines",)}


def derive_cfg(ctx, base, name, **subst):
    txt = open(os.path.join(vlib.SPEC, base)).read()
    for k, v in subst.items():
        txt, n = re.subn(rf"(?m)^(\s*(?:CONSTANTS\s+)?){k} = .*$", lambda m: f"{m.group(1)}{k} = {v}", txt)
        if n != 1:
            raise vlib.ToolError(f"derive_cfg: {k} not found in {base}")
    path = os.path.join(ctx.work, name)
    with open(path, "w") as f:
        f.write(txt)
    return path


def tlc(ctx, cfg, tag, workers, coverage=False, module="CompiledExpr"):
    return run_tlc(module, cfg, workers=workers, timeout=3300, heap="6g", tag="C06-" + tag, coverage=coverage)


def spec_str(a):
    return "".join("N" if x == NULL else ("X" if x == OUT else str(x)) for x in a)


def render(q):
    k = q["k"]
    if k == "col":
        return q["c"]
    if k == "lit":
        names = {-1000: "-inf", 1000: "+inf", -1: "-0.0", 1: "+0.0", 2000: "NaN"}
        if q["t"] == "f64":
            return names.get(q["v"], f"{q['v'] / 10:.1f}")
        return {-9: "MIN", 9: "MAX"}.get(q["v"], str(q["v"])) + ":" + q["t"]
    if k == "ar":
        return f"({render(q['a'])} {dict(add='+', sub='-', mul='*', div='/')[q['op']]} {render(q['b'])})"
    if k == "cmp":
        return f"{render(q['a'])} {dict(eq='=', ne='<>', lt='<', le='<=', gt='>', ge='>=')[q['op']]} {render(q['b'])}"
    if k == "btw":
        return f"{render(q['x'])} {'NOT ' if q['neg'] else ''}BETWEEN {render(q['lo'])} AND {render(q['hi'])}"
    if k == "not":
        return f"NOT ({render(q['a'])})"
    return f"({render(q['a'])}) {k.upper()} ({render(q['b'])})"


def chains(cases, rng, count):
    """Left-deep AND/OR chains over emitted compiled cases: register pressure around the 24-register limit.
    No spec expectation (differential only); the deviation signature of a row is the union of the members'."""
    pool = [c for c in cases if c["compiled"] == 1 and c["e"]["k"] in ("cmp", "btw")]
    out = []
    if not pool:
        return out
    for _ in range(count):
        n = rng.choice([2, 5, 9, 11, 12, 12, 13, 14, 20])
        ms = [rng.choice(pool) for _ in range(n)]
        e = ms[0]["e"]
        for m in ms[1:]:
            e = {"k": rng.choice(["and", "or"]), "a": e, "b": m["e"]}
        sg = [0] * len(ms[0]["sg"])
        xs = [False] * len(sg)
        for m in ms:
            sg = [a | b for a, b in zip(sg, m["sg"])]
            xs = [x or OUT in (a, b) for x, a, b in zip(xs, m["ri"], m["rc"])]
        out.append({"e": e, "variant": ms[0]["variant"], "compiled": -1, "ri": None, "rc": None, "sg": sg, "xs": xs, "chain": n})
    return out


def run_harness(ctx, groups, tag, env=None):
    inp = os.path.join(ctx.work, f"{tag}.in.ndjson")
    outp = os.path.join(ctx.work, f"{tag}.out.ndjson")
    write_ndjson(inp, groups)
    qev(["compiled-replay", inp, outp], timeout=3000, env=env)
    out = {g["variant"]: g["recs"] for g in read_ndjson(outp)}
    os.remove(inp)
    os.remove(outp)
    return out


class Judge:
    def __init__(self, ctx):
        self.ctx = ctx
        self.drift = collections.Counter()
        self.drift_ex = {}
        self.nontrivial = set()
        self.known_rows = collections.Counter()
        self.declined = 0
        self.compiled = 0
        self.chunk_rows_compared = 0

    def note(self, kind, ex):
        self.drift[kind] += 1
        self.drift_ex.setdefault(kind, ex)

    def rows_differ(self, case, rows, R, what, detail):
        """rows (indices into a tiled batch) on which compiled and interpreter disagree on a VALID row's value."""
        ctx = self.ctx
        xs = case.get("xs")
        if xs is None:
            xs = case["xs"] = [((case["ri"] is not None) and (OUT in (a, b))) for a, b in zip(case["ri"] or case["sg"], case["rc"] or case["sg"])]
        noexp = [i for i in rows if xs[i % R]]
        if noexp:       # the spec has no expectation for these rows (a value outside the token domain): cannot be classified
            ctx.add("differing_rows_without_spec_expectation", len(noexp))
            rows = [i for i in rows if not xs[i % R]]
            if not rows:
                return
        codes = collections.Counter(case["sg"][i % R] for i in rows)
        unexplained = [i for i in rows if case["sg"][i % R] == 0]
        if unexplained:
            ctx.violation({"e": case["e"], "variant": case["variant"], "rows": unexplained[:20], "detail": detail, "sg": case["sg"]},
                          f"{what}: {render(case['e'])} differs on rows {unexplained[:8]} where no Float64 comparison leaf sees NaN or the two zeros")
            return
        for code, n in codes.items():
            for bit in (1, 2):
                if code & bit:
                    if ctx.is_known(FIND[bit]):
                        ctx.known(FIND[bit], {"expr": render(case["e"]), "what": what, "rows": [i for i in rows if case["sg"][i % R] & bit][:6], "detail": detail})
                        self.known_rows[FIND[bit]] += n
                    else:
                        ctx.violation({"e": case["e"], "variant": case["variant"], "rows": rows[:20], "detail": detail}, f"{what}: {render(case['e'])} (deviation {FIND[bit]} is not listed)")
                        return
                    break

    def case(self, case, rec, rec0, R):
        ctx = self.ctx
        ctx.add("evaluations")
        e = case["e"]
        if "panic" in rec:
            ctx.violation({"e": e}, "CompiledPredicate::compile panicked: " + rec["panic"])
            return
        if case["compiled"] in (0, 1) and rec["compiled"] != case["compiled"]:
            self.note("compile/decline decision differs from the modelled subset", {"expr": render(e), "model": case["compiled"], "real": rec["compiled"]})
        if rec["compiled"] == 0:
            self.declined += 1
        else:
            self.compiled += 1
        # spec vs each real evaluator (fidelity)
        if case["ri"] is not None and rec["ri"]:
            si = spec_str(case["ri"])
            bad = [i for i, (a, b) in enumerate(zip(si, rec["ri"])) if a != "X" and a != b]
            if bad:
                self.note("evaluate_expr differs from the spec's interpreter row function", {"expr": render(e), "variant": case["variant"], "row": bad[0], "spec": si[bad[0]], "real": rec["ri"][bad[0]]})
            if rec["compiled"] == 1 and rec["rc"]:
                sc = spec_str(case["rc"])
                bad = [i for i, (a, b) in enumerate(zip(sc, rec["rc"])) if a != "X" and a != b]
                if bad:
                    self.note("CompiledPredicate differs from the modelled compiled row function", {"expr": render(e), "variant": case["variant"], "row": bad[0], "spec": sc[bad[0]], "real": rec["rc"][bad[0]]})
            if rec["compiled"] == 1 and (len(set(rec["ri"])) > 1):
                self.nontrivial.add(vlib.chash([e, case["variant"]]))
        # the contract: compiled == interpreter on every batch length
        for lr in rec["lens"]:
            L = lr["len"]
            if "cpanic" in lr:
                ctx.violation({"e": e, "len": L}, f"CompiledPredicate::evaluate panicked on a {L}-row batch: {lr['cpanic']}")
                continue
            if "ierr" in lr:
                if rec["compiled"] == 1:
                    self.note("evaluate_expr errors on an expression the compiler accepts", {"expr": render(e), "err": lr["ierr"]})
                continue
            if rec["compiled"] != 1:
                continue
            if "cnone" in lr:
                self.note("evaluate() returned None for a batch of the compiled schema (falls back to the interpreter)", {"expr": render(e), "len": L})
                continue
            self.chunk_rows_compared += L
            if "clen" in lr or "lenmismatch" in lr:
                ctx.violation({"e": e, "len": L, "lr": lr}, f"the compiled mask has {lr.get('clen')} rows for a {L}-row batch")
                continue
            if lr.get("rawdiff"):
                self.note("raw value bits under NULL differ (not observable through a filter)", {"expr": render(e), "len": L, "rows": lr["rawdiff"]})
            if lr.get("vdiff"):
                ctx.violation({"e": e, "variant": case["variant"], "len": L, "lr": {k: v for k, v in lr.items() if k != "kept"}},
                              f"validity differs between compiled and interpreter for {render(e)} on {lr['vdiff']} rows of a {L}-row batch")
                continue
            if lr.get("ndiff"):
                rows = lr["diff"]
                # validity mismatch is never excused
                self.rows_differ(case, rows, R, f"compiled vs interpreter on a {L}-row batch", {"len": L, "ndiff": lr["ndiff"]})
        for inc in rec["incons"]:
            L, i, which, got, want = inc
            if which == "C" and rec["compiled"] == 1:
                # the compiled evaluator is not the same row function on this batch length; if the interpreter is, ndiff above shows it
                self.note("compiled result depends on the batch length", {"expr": render(e), "len": L, "row": i, "got": got, "canonical": want})
            elif which == "I":
                self.note("interpreter result depends on the batch length", {"expr": render(e), "len": L, "row": i})
        # validity must be bit-identical: an 'N' against a non-'N' inside diff rows is caught above only if sg != 0 -> check explicitly
        if rec["compiled"] == 1 and rec["ri"] and rec["rc"]:
            vbad = [i for i, (a, b) in enumerate(zip(rec["ri"], rec["rc"])) if (a == "N") != (b == "N")]
            if vbad:
                ctx.violation({"e": e, "variant": case["variant"], "rows": vbad[:20], "ri": rec["ri"], "rc": rec["rc"]},
                              f"validity differs between compiled and interpreter for {render(e)} on rows {vbad[:8]}")
        # the consumers: same rows with and without compilation
        if rec0 is not None:
            for lr, lr0 in zip(rec["lens"], rec0["lens"]):
                if "kept" in lr and "kept" in lr0:
                    ctx.add("filter_exec_runs", 2)
                    if lr["kept"] != lr0["kept"]:
                        rows = [i for i, (a, b) in enumerate(zip(lr["kept"], lr0["kept"])) if a != b]
                        self.rows_differ(case, rows, R, f"FilterExec keeps different rows with QE_COMPILE=0 ({lr['len']}-row batch)", {"len": lr["len"], "default": lr["kept_n"], "compile_off": lr0["kept_n"]})
                    # the consumer keeps exactly the rows its evaluator marks TRUE
                    src = rec["rc"] if rec["compiled"] == 1 else rec["ri"]
                    if src and any((src[i % R] == "1") != (ch == "1") for i, ch in enumerate(lr["kept"])):
                        self.note("FilterExec keeps other rows than its evaluator's mask", {"expr": render(e), "len": lr["len"]})
                elif "ferr" in lr or "ferr" in lr0:
                    if rec["compiled"] == 1:
                        self.note("FilterExec error", {"expr": render(e), "err": lr.get("ferr") or lr0.get("ferr")})
            if "sql_ids" in rec and "sql_ids" in rec0:
                a, b = rec["sql_ids"], rec0["sql_ids"]
                if a.get("ok") and b.get("ok"):
                    ctx.add("sql_statements", 2)
                    if a["kept"] != b["kept"]:
                        rows = [i for i, (x, y) in enumerate(zip(a["kept"], b["kept"])) if x != y]
                        if all(case["sg"][i % R] for i in rows):
                            self.rows_differ(case, rows, R, "SQL keeps different rows with QE_COMPILE=0", {"sql": rec["sql"], "default": a["n"], "compile_off": b["n"]})
                        else:
                            self.note("SQL-level difference with QE_COMPILE=0 outside the known signatures (planner-level; the FilterExec-level comparison is the judge)", {"sql": rec["sql"]})
                elif a.get("panic") or b.get("panic"):
                    self.note("SQL statement panicked", {"sql": rec["sql"], "default": a, "compile_off": b})


def replay_cases(ctx, J, cases, tables, rng, n_chains, tag):
    byv = collections.defaultdict(list)
    for c in cases:
        byv[c["variant"]].append(c)
    groups = []
    for v in sorted(byv):
        byv[v] += chains(byv[v], rng, n_chains)
        t = tables[v]
        groups.append({"variant": v, "table": {c: t[c] for c in "fgkmd"}, "lens": LENS, "sql": 1,
                       "cases": [{"id": i, "e": c["e"]} for i, c in enumerate(byv[v])]})
    with cf.ThreadPoolExecutor(max_workers=2) as ex:
        fa = ex.submit(run_harness, ctx, groups, tag + "-default", None)
        fb = ex.submit(run_harness, ctx, groups, tag + "-c0", {"QE_COMPILE": "0"})
        A, B0 = fa.result(), fb.result()
    for v in sorted(byv):
        R = tables[v]["rows"]
        if len(A[v]) != len(byv[v]) or len(B0[v]) != len(byv[v]):
            raise vlib.ToolError("compiled-replay returned a different number of records")
        for c, ra, rb in zip(byv[v], A[v], B0[v]):
            if ra["mode"] != 1 or rb["mode"] != 0:
                raise vlib.ToolError("QE_COMPILE switch not effective in the harness processes")
            if rb.get("compiled"):
                raise vlib.ToolError("compile() succeeded under QE_COMPILE=0")
            if ra.get("ri") != rb.get("ri"):
                J.note("the interpreter gives different results in two processes", {"expr": render(c["e"])})
            J.case(c, ra, rb, R)
            if c.get("chain"):
                ctx.add("register_pressure_chains")
                if ra.get("compiled") == 0 and c["chain"] <= 2:
                    J.note("a short chain was declined", {"n": c["chain"]})


def run(ctx):
    rng = random.Random(ctx.seed)
    quick = ctx.tier == "quick"
    J = Judge(ctx)
    base = "CompiledExpr_quick.cfg" if quick else "CompiledExpr_thorough.cfg"
    variants = ["nulls", "nonull"] if quick else ["nulls", "nonull", "mixed"]
    emit = []
    if quick:
        for v in variants:
            emit.append((derive_cfg(ctx, base, f"emit-{v}.cfg", Variants='{"%s"}' % v), f"as-built, table variant {v}", 3))
    else:
        for v in variants:
            for fams in (["f64leaf", "intleaf", "decline", "bool"], ["arith"], ["arith2"], ["bool3"]):
                emit.append((derive_cfg(ctx, base, f"emit-{v}-{fams[0]}.cfg", Variants='{"%s"}' % v, Families="{" + ", ".join(json.dumps(f) for f in fams) + "}"),
                             f"as-built, table variant {v}, families {'+'.join(fams)}", 4))
    fixed = "CompiledExpr_fixed_quick.cfg" if quick else derive_cfg(ctx, "CompiledExpr_fixed_quick.cfg", "fixed-all.cfg", Families='{"f64leaf", "arith", "arith2", "bool", "bool3"}')
    side = [(fixed, "repaired evaluator (total_cmp): agrees everywhere, no escape", None),
            ("CompiledExpr_strict_bad.cfg", "as-built without the deviation escape: counterexample expected", "Agree")]
    vmcfg = "CompiledVM_quick.cfg" if quick else "CompiledVM_thorough.cfg"
    side.append((vmcfg, "the register machine (compiler + chunked eval_chunk, one action per instruction) refines the compiled row function on every batch length around the chunk boundary", None, "CompiledVM"))
    if not quick:
        side += [(derive_cfg(ctx, "CompiledExpr_fixed_quick.cfg", f"{m}.cfg", Impl=f'"{m}"', Strict="FALSE"), f"mutant {m}: rejected", "Agree") for m in MUTANTS]
        side += [(derive_cfg(ctx, "CompiledVM_quick.cfg", f"vm-{m}.cfg", VM=f'"{m}"'), f"machine mutant {m}: rejected", inv, "CompiledVM") for m, inv in VM_MUTANTS.items()]
    pool = cf.ThreadPoolExecutor(max_workers=5 if quick else 3)
    side_f = [pool.submit(lambda s=s: (s, tlc(ctx, s[0], os.path.basename(s[0])[:-4], 2, coverage=(not quick and len(s) > 3 and s[2] is None), module=(s[3] if len(s) > 3 else "CompiledExpr")))) for s in side]
    emit_f = [pool.submit(lambda r=r: (r, tlc(ctx, r[0], os.path.basename(r[0])[:-4], r[2], coverage=not quick))) for r in emit]
    n_cases = 0
    sig_rows = collections.Counter()
    for f in emit_f:
        (cfg, label, _), res = f.result()
        tlc_must_pass(res, label)
        ctx.tlc_stats(res, f"{label}: interpreter vs compiled row functions agree up to the named deviations")
        if len(res.cases) < 50:
            raise vlib.ToolError(f"{label}: only {len(res.cases)} cases")
        if not quick:
            for act in ("Compile", "Eval"):
                if res.coverage.get(act, 0) == 0:
                    raise vlib.ToolError(f"{label}: action {act} never taken")
        tables = {r["variant"]: r for k, r in res.prints if k == "TABLE"}
        for c in res.cases:
            if c["compiled"] == 1:
                for a, b, s in zip(c["ri"], c["rc"], c["sg"]):
                    if a != b and OUT not in (a, b):
                        sig_rows[s] += 1
        n_cases += len(res.cases)
        replay_cases(ctx, J, res.cases, tables, rng, 20 if quick else 80, os.path.basename(cfg)[:-4])
        c = res.cases[len(res.cases) // 2]
        ctx.sample({"expr": render(c["e"]), "variant": c["variant"], "compiled": c["compiled"], "interp": spec_str(c["ri"])[:32], "compiled_rows": spec_str(c["rc"])[:32]}, cap=5)
        res.cases, res.out = [], ""
    for f in side_f:
        sdesc, res = f.result()
        cfg, label, expect = sdesc[:3]
        ctx.tlc_stats(res, label)
        if res.error:
            raise vlib.ToolError(f"TLC error in {label}: {res.error[:300]}")
        if len(sdesc) > 3 and expect is None and not quick:
            for act in ("Exec", "Flush"):
                if res.coverage.get(act, 0) == 0:
                    raise vlib.ToolError(f"{label}: action {act} never taken")
        if expect:
            if res.violated != expect and not (isinstance(expect, tuple) and res.violated in expect):
                raise vlib.ToolError(f"{label}: TLC found no counterexample to {expect} (got {res.violated})")
            ctx.add("expected_counterexamples_found")
        else:
            tlc_must_pass(res, label)
    pool.shutdown()
    # vacuity
    if not (sig_rows[1] or sig_rows[3]) or not (sig_rows[2] or sig_rows[3]):
        raise vlib.ToolError(f"the model predicts no NaN / zero deviation rows: {dict(sig_rows)}")
    if sig_rows[0]:
        raise vlib.ToolError("model rows differ without a deviation signature although TLC passed")
    if J.compiled < 100 or J.declined < 5:
        raise vlib.ToolError(f"compiled {J.compiled} / declined {J.declined}: the compiled subset was hardly exercised")
    if ctx.cov.get("filter_exec_runs", 0) == 0 or ctx.cov.get("sql_statements", 0) == 0:
        raise vlib.ToolError("no FilterExec / SQL run")
    for fid in FIND.values():
        if ctx.is_known(fid) and J.known_rows[fid] == 0:
            ctx.notes.append(f"known finding {fid} is listed as open but the real code no longer shows it (fixed?)")
    ctx.set("tlc_cases", n_cases)
    ctx.set("expressions_compiled", J.compiled)
    ctx.set("expressions_declined_and_skipped", J.declined)
    ctx.set("rows_compared_compiled_vs_interpreter", J.chunk_rows_compared)
    ctx.set("known_deviation_rows", dict(J.known_rows))
    ctx.set("distinct_nontrivial", len(J.nontrivial))
    ctx.set("traces_validated_against_impl", J.compiled)
    if J.drift:
        ctx.set("fidelity_drift", dict(J.drift))
        for k, ex in J.drift_ex.items():
            ctx.notes.append(f"spec drift (fidelity only): {k} x{J.drift[k]}, e.g. {json.dumps(ex)[:300]}")
    ctx.set("exhaustive", True)
    ctx.set("rule", "TLC enumerates every tree of the families: Float64 leaves (6 comparisons x 7 literals incl. NaN, +-0.0, +-inf, either side, column-column), "
            "Int64/Int32/Date32 leaves with the type's extremes, shapes the compiler must decline, f64 arithmetic (+ - * /) of depth 1 (quick) / 2 (thorough) inside "
            "comparisons, NOT / AND / OR / [NOT] BETWEEN over mixed-type leaves (depth 3 in thorough), each over a 96-row token table holding every pair of "
            "{-inf,-2,-0.0,+0.0,1,+inf,NaN,NULL} for (f,g) and every value of {MIN,-1,0,1,MAX,NULL} for k, m, d, with NULLs everywhere / nowhere / only in the "
            "doubles; plus left-deep AND/OR chains of 2..20 leaves around the 24-register limit. Each tree is one evaluation = 6 batch lengths x 2 evaluators + "
            "FilterExec + SQL in two processes. distinct_nontrivial = distinct (tree, table variant) that compiled and whose mask is not constant over the rows.")
    ctx.assumptions += ["the interpreter's order on doubles is Arrow's total order; invalid operations (inf-inf, 0*inf, 0/0) produce the x86-64 default NaN (sign bit "
                        "set), which that order puts BELOW -inf — modelled as such; rows where two NaNs of different sign meet have no expectation",
                        "value bits under a NULL slot are not compared (no consumer can observe them); validity is compared bit for bit",
                        "expressions the compiler declines are skipped and counted (they keep the interpreter)"]


def replay(ctx, obj):
    c = obj["case"]
    res = tlc(ctx, derive_cfg(ctx, "CompiledExpr_quick.cfg", "replay.cfg", Families='{"decline"}', Variants='{"%s"}' % c.get("variant", "nulls")), "replay", 2)
    tables = {r["variant"]: r for k, r in res.prints if k == "TABLE"}
    v = c.get("variant", "nulls")
    R = tables[v]["rows"]
    case = {"e": c["e"], "variant": v, "compiled": -1, "ri": None, "rc": None, "sg": c.get("sg") or [0] * R}
    J = Judge(ctx)
    g = [{"variant": v, "table": {k: tables[v][k] for k in "fgkmd"}, "lens": LENS, "sql": 0, "cases": [{"id": 0, "e": c["e"]}]}]
    A = run_harness(ctx, g, "replay-a")
    B0 = run_harness(ctx, g, "replay-b", {"QE_COMPILE": "0"})
    J.case(case, A[v][0], B0[v][0], R)
    ctx.set("distinct_nontrivial", 1)
    ctx.sample(A[v][0]["lens"][-1])


def selftest(ctx):
    """(1) mutant compiled evaluators are rejected by the model property; (2) corrupted recorded masks are rejected by the judge."""
    missed = 0
    for m in MUTANTS:
        res = tlc(ctx, derive_cfg(ctx, "CompiledExpr_fixed_quick.cfg", f"st-{m}.cfg", Impl=f'"{m}"', Strict="FALSE", Families='{"bool"}'), f"st-{m}", 3)
        ok = res.violated == "Agree"
        print(f"selftest: model mutant {m}: {'rejected by Agree' if ok else 'ACCEPTED'}")
        missed += 0 if ok else 1
    for m, inv in VM_MUTANTS.items():
        res = tlc(ctx, derive_cfg(ctx, "CompiledVM_quick.cfg", f"st-vm-{m}.cfg", VM=f'"{m}"'), f"st-vm-{m}", 3, module="CompiledVM")
        ok = res.violated in inv
        print(f"selftest: machine mutant {m}: {'rejected by ' + str(res.violated) if ok else 'ACCEPTED'}")
        missed += 0 if ok else 1
    res = tlc(ctx, derive_cfg(ctx, "CompiledExpr_quick.cfg", "st-emit.cfg", Families='{"intleaf"}', Variants='{"nulls"}'), "st-emit", 3)
    tlc_must_pass(res, "selftest emit")
    tables = {r["variant"]: r for k, r in res.prints if k == "TABLE"}
    R = tables["nulls"]["rows"]
    cases = [c for c in res.cases if c["compiled"] == 1][:3]
    g = [{"variant": "nulls", "table": {k: tables["nulls"][k] for k in "fgkmd"}, "lens": LENS, "sql": 0, "cases": [{"id": i, "e": c["e"]} for i, c in enumerate(cases)]}]
    A = run_harness(ctx, g, "st-a")["nulls"]
    B0 = run_harness(ctx, g, "st-b", {"QE_COMPILE": "0"})["nulls"]

    def judged(mut):
        c2 = vlib.Ctx(ctx.pid, ctx.tier, ctx.seed, ctx.level)
        J = Judge(c2)
        ra = json.loads(json.dumps(A[0]))
        rb = json.loads(json.dumps(B0[0]))
        mut(ra, rb)
        J.case(cases[0], ra, rb, R)
        return c2, J
    c2, J = judged(lambda a, b: None)
    if c2.violations or J.drift:
        print(f"selftest: the unmodified record is rejected: {c2.violations} {dict(J.drift)}")
        missed += 1

    def flip_diff(a, b):   # a row >= 1024 differs between compiled and interpreter (chunk boundary)
        a["lens"][4]["ndiff"] = 1
        a["lens"][4]["diff"] = [1024]

    def flip_valid(a, b):
        i = a["rc"].index("N")
        a["rc"] = a["rc"][:i] + "0" + a["rc"][i + 1:]

    def flip_kept(a, b):
        k = a["lens"][5]["kept"]
        a["lens"][5]["kept"] = ("0" if k[0] == "1" else "1") + k[1:]

    def spec_drift(a, b):
        i = 0
        a["ri"] = ("0" if a["ri"][i] == "1" else "1") + a["ri"][1:]
        b["ri"] = a["ri"]
    for why, mut, want in (("a compiled/interpreter difference on row 1024", flip_diff, "v"), ("a validity bit flipped in the compiled mask", flip_valid, "v"),
                           ("FilterExec keeps another row with QE_COMPILE=0", flip_kept, "v"), ("the interpreter's recorded row differs from the spec", spec_drift, "d")):
        c2, J = judged(mut)
        ok = bool(c2.violations) if want == "v" else bool(J.drift)
        print(f"selftest: {'rejected' if ok else 'ACCEPTED (binding lost)'}: {why}")
        missed += 0 if ok else 1
    return 1 if missed else 0
