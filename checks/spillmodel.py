"""C08 — the spill STATE MACHINES (ExternalSort.tla, SpillAgg.tla, SpillJoin.tla) bound to the real operators.

    run_spill_model(ctx)       called by checks/c08.py after the SQL configuration matrix
    selftest_spill_model(ctx)  binding demonstration (0 = every corruption / seeded model mistake is rejected)
    replay_spill_model(ctx, obj)  re-run one replay file produced by this module (obj["case"]["spill_case"])
    is_spill_replay(obj)

(M) TLC runs the three step machines over every small input (all splits into batches, every threshold, every
ORDER BY option / hash function / join type) and checks the contract as invariants; it emits one case per input.
(R) `qev spill-replay` builds the REAL ExternalSortExec / SpillableHashAggregateExec / SpillableHashJoinExec over
the case's batches (six key types), forces the spill decision the case names through ExecutionConfig, and records
the output, MemoryPool::spilled() and the files the operator created.  The judgement below compares every limited
run with the TLC-emitted expectation (tie-tolerant) and with the unlimited run of the same operator.

Standalone (writes no /verif/evidence/C08.json):  python3 checks/spillmodel.py [--tier quick|thorough] [--selftest]
"""
import concurrent.futures as cf
import collections, copy, json, os, random, sys, time

if __name__ == "__main__":
    _root = os.path.dirname(os.path.dirname(os.path.abspath(__file__)))
    os.environ.setdefault("VERIF_EVID_DIR", os.path.join(_root, "work", "C08", "spillmodel-evidence"))
    os.environ.setdefault("VERIF_REPLAYS_DIR", os.path.join(_root, "work", "C08", "spillmodel-replays"))
    sys.path.insert(0, os.path.join(_root, "lib"))
    sys.path.insert(0, os.path.join(_root, "checks"))
import vlib
from vlib import run_tlc, tlc_must_pass, qev, write_ndjson, read_ndjson, NULL

KTYPES = ["i64", "i32", "f64", "utf8", "date32", "ts"]
MERGE_TYPES = {"i64", "i32", "f64", "utf8", "date32"}        # compare_array_values knows these (anything else compares Equal)
JOINKEY_TYPES = {"i64", "i32", "f64", "utf8"}                # extract_join_key knows these (anything else becomes Null)
MERGE_BUFFER_ROWS = 8192
FANIN = 8
JT = {1: "inner", 2: "left", 3: "right", 4: "full", 5: "semi", 6: "anti"}

F_TYPE = "C08/spill-merge-unsupported-key-type"
F_BIGRUN = "C08/spill-merge-8192-rows-or-more"
F_JOINKEY = "C08/spill-join-unsupported-key-type"
F_AGGNULL = "C08/spill-agg-null-group-key"


# =====================================================================================  TLC
def tlc_jobs(tier):
    q = tier == "quick"
    jobs = [("ExternalSort", f"ExternalSort_{tier}.cfg", "sort", "external sort: every split into batches x threshold x ORDER BY option, multi-pass merges"),
            ("SpillAgg", f"SpillAgg_{tier}.cfg", "agg", "partitioned spilling aggregation: every input x threshold x hash function"),
            ("SpillJoin", f"SpillJoin_{tier}.cfg", "join", "partitioned spilling join: every input x join type x build side x threshold x hash function")]
    if not q:
        jobs += [("ExternalSort", "ExternalSort_rows6_thorough.cfg", "sort", "external sort: 6 rows in <= 3 batches, three key values"),
                 ("ExternalSort", "ExternalSort_keys2_thorough.cfg", "sort", "external sort with two sort keys, all 16 direction / NULLS combinations"),
                 ("ExternalSort", "ExternalSort_multipass_thorough.cfg", "sort", "multi-pass merges: 9, 10, 11, 16, 17 runs at fan-in 8, 3..7 runs at fan-in 2 and 3"),
                 ("ExternalSort", "ExternalSort_runs65_thorough.cfg", "sort", "65, 66, 72, 73 runs: a carried run meets the second pass's cleanup (explicit error as built)"),
                 ("ExternalSort", "ExternalSort_empty_thorough.cfg", "sort", "zero-row batches")]
    return jobs


NEGATIVE = [("ExternalSort", "ExternalSort_asbuilt_cex.cfg", "AtDone", "merge comparator as built (NULLS FIRST/LAST ignored) breaks the sort contract"),
            ("SpillAgg", "SpillAgg_mut_doublecount.cfg", "Conserves", "a spilled partition that is not cleared is counted twice"),
            ("SpillJoin", "SpillJoin_mut_silentouter.cfg", "AtDone|NonInnerNeverSpills", "a non-inner join on the spill path loses the NULL-extended rows")]
REACH = [("SpillAgg", "SpillAgg_cover_refill.cfg", "CoverRefill", "a partition is evicted and refilled (spill file + in-memory remainder aggregated together)"),
         ("SpillJoin", "SpillJoin_cover_answer.cfg", "CoverAnswerAfterSpill", "a spilled build partition is re-read and probed with its spilled probe rows"),
         ("SpillJoin", "SpillJoin_cover_missing.cfg", "CoverMissingFile", "a partition evicted while empty has no build file (explicit error, as built)"),
         ("ExternalSort", "ExternalSort_nocleanup.cfg", None, "without the as-built cleanup of carried runs the model never errors")]


def run_models(ctx):
    jobs = tlc_jobs(ctx.tier)
    quick = ctx.tier == "quick"

    def one(j):
        return j, run_tlc(j[0], j[1], workers=(3 if quick else 4), timeout=3000, heap="6g", tag=f"C08-{j[1][:-4]}", coverage=not quick)
    with cf.ThreadPoolExecutor(max_workers=3 if quick else 4) as ex:
        results = list(ex.map(one, jobs))
    cases = {"sort": [], "agg": [], "join": []}
    for (mod, cfg, fam, label), res in results:
        tlc_must_pass(res, cfg)
        ctx.tlc_stats(res, f"{cfg}: {label}")
        if not res.cases:
            raise vlib.ToolError(f"{cfg} emitted no cases")
        if not quick:
            need = {"sort": ["TakeFlush", "TakeAppend", "EndGen", "Merge", "ApplyFetch"], "agg": ["Take", "Finish"],
                    "join": ["BuildTake", "ProbeTake", "Drain"]}[fam]
            if "multipass" in cfg or "runs65" in cfg:
                need += ["MergeChunk", "EndPass", "FinalMerge"]
            for act in need:
                if res.coverage.get(act, 0) == 0:
                    raise vlib.ToolError(f"{cfg}: action {act} never taken")
        for c in res.cases:
            c["src"] = cfg
        cases[fam] += res.cases
    for fam in cases:      # TLC's workers print in a schedule-dependent order: fix it, so that the seed alone decides the sample
        cases[fam].sort(key=lambda c: json.dumps(c, sort_keys=True))
    if not quick:
        negatives(ctx)
    return cases


def negatives(ctx):
    """sensitivity of the models: seeded mistakes must be refuted, coverage situations must be reachable"""
    def one(j):
        return j, run_tlc(j[0], j[1], workers=3, timeout=1800, heap="4g", tag=f"C08-{j[1][:-4]}")
    with cf.ThreadPoolExecutor(max_workers=3) as ex:
        results = list(ex.map(one, NEGATIVE + REACH))
    bad = 0
    for (mod, cfg, inv, label), res in results:
        ctx.tlc_stats(res, f"{cfg}: expected {'violation of ' + inv if inv else 'no violation'} — {label}")
        if inv is None:
            tlc_must_pass(res, cfg)
        elif res.violated not in inv.split("|"):
            vlib.log(f"[C08] {cfg}: expected {inv} to be refuted, got violated={res.violated} error={str(res.error)[:200]}")
            bad += 1
    if bad:
        raise vlib.ToolError(f"{bad} model sensitivity / reachability runs did not give the expected counterexample")
    ctx.set("model_negative_runs", len(NEGATIVE))
    ctx.set("model_reachability_runs", len(REACH))


# =====================================================================================  concretisation
def has_null_and_value(col):
    return NULL in col and any(v != NULL for v in col)


def sort_features(c):
    rows = [r for b in c["batches"] for r in b]
    nk = len(c["spec"])
    f = set()
    f.add("spill" if c["path"] == "spill" else "mem")
    if c["path"] == "spill":
        f.add("runs=1" if len(c["runs"]) == 1 else "runs=2" if len(c["runs"]) == 2 else "runs=3..8" if len(c["runs"]) <= 8 else "runs>8")
    if c["passes"] >= 1:
        f.add("multipass")
    if c["outcome"] == "error":
        f.add("model-error")
    if c["fetch"] >= 0:
        f.add("fetch")
    for i in range(nk):
        f.add(f"k{i}:{'desc' if c['spec'][i]['desc'] else 'asc'}-{'nf' if c['spec'][i]['nf'] else 'nl'}")
        col = [r[i] for r in rows]
        if has_null_and_value(col):
            f.add("nulls+values")
    keys = [tuple(r) for r in rows]
    if len(set(keys)) < len(keys):
        f.add("ties")
    return f


def pick(cases, n, rng, feat, must=None):
    """deterministic selection: greedy cover of every feature combination first, then a seed-chosen sample"""
    cases = list(cases)
    if len(cases) <= n:
        return cases
    bykey = collections.OrderedDict()
    for c in cases:
        bykey.setdefault(tuple(sorted(feat(c))), []).append(c)
    chosen, seen = [], set()
    for k, lst in bykey.items():
        c = lst[rng.randrange(len(lst))]
        chosen.append(c); seen.add(id(c))
        if len(chosen) >= n:
            return chosen
    rest = [c for c in cases if id(c) not in seen and (must is None or must(c))]
    rng.shuffle(rest)
    chosen += rest[: n - len(chosen)]
    if len(chosen) < n:
        rest = [c for c in cases if id(c) not in seen and not (must is None or must(c))]
        rng.shuffle(rest)
        chosen += rest[: n - len(chosen)]
    return chosen


def concretise_sort(cases, rng, tier):
    quick = tier == "quick"
    n = 420 if quick else 5000
    sel = pick(cases, n, rng, sort_features, must=lambda c: c["path"] == "spill" and len(c["runs"]) >= 2)
    out = []
    for i, c in enumerate(sel):
        nk = len(c["spec"])
        kts = [KTYPES[(i + 2 * j) % len(KTYPES)] for j in range(nk)]
        if i % 11 == 10:
            kts = [rng.choice(KTYPES) for _ in range(nk)]
        batches = copy.deepcopy(c["batches"])
        runs = list(c["runs"])
        if c.get("fam") == "singles" and c["path"] == "spill":
            rng.shuffle(batches)          # every batch is its own run: the batch order is free
        h = {"op": "sort", "ktypes": kts, "batches": batches, "spec": c["spec"], "fetch": c["fetch"], "path": c["path"],
             "runs": runs, "scale": 1, "perm": ["asis", "rev", rng.randrange(1, 1 << 30)][i % 3], "leaf": "mem",
             "thr": [["lo"], ["hi"], ["lo", "hi"]][i % 3] if quick else ["lo", "hi"], "prod": 1 if i % 4 == 3 else 0}
        if i % 9 == 4:
            h["scale"] = 8                 # sizes exactly proportional to rows (8 rows per null-bitmap byte)
        out.append({"model": c, "h": h})
    # the merge emits its output in MERGE_BUFFER_ROWS slices and re-reads runs in slices of that size: scale past it
    def run_rows(c):
        out, i = [], 0
        for nb in c["runs"]:
            out.append(sum(len(b) for b in c["batches"][i:i + nb])); i += nb
        return out
    big = [c for c in sel if c["path"] == "spill" and 2 <= len(c["runs"]) <= 3 and sum(len(b) for b in c["batches"]) <= 4 and c["outcome"] == "rows" and max(run_rows(c)) >= 2]
    for i, c in enumerate(big[: (1 if quick else 6)]):
        nk = len(c["spec"])
        h = {"op": "sort", "ktypes": [["i64", "utf8", "f64"][(i + j) % 3] for j in range(nk)], "batches": c["batches"], "spec": c["spec"],
             "fetch": c["fetch"], "path": "spill", "runs": list(c["runs"]), "scale": (MERGE_BUFFER_ROWS // sum(len(b) for b in c["batches"]) + 40) if (quick or i % 2) else 4500, "perm": rng.randrange(1, 1 << 30),
             "leaf": "seq", "thr": ["lo"], "prod": 0}
        out.append({"model": c, "h": h})
    # just below the slice size (8191 rows or fewer in total): same shape, must be right
    for i, c in enumerate(big[: (1 if quick else 3)]):
        h = {"op": "sort", "ktypes": ["i64"] * len(c["spec"]), "batches": c["batches"], "spec": c["spec"], "fetch": c["fetch"], "path": "spill",
             "runs": list(c["runs"]), "scale": (MERGE_BUFFER_ROWS - 1) // sum(len(b) for b in c["batches"]), "perm": rng.randrange(1, 1 << 30),
             "leaf": "seq", "thr": ["hi"], "prod": 0}
        out.append({"model": c, "h": h})
    for j, x in enumerate(out):
        x["h"]["id"] = f"s{j}"
    return out


AGG_SHAPES = ["distinct", "basic", "keys", "global"]


def agg_features(c):
    rows = [r for b in c["batches"] for r in b]
    f = {f"batches={len(c['batches'])}"}
    if any(r[0] == NULL for r in rows):
        f.add("null-key")
    if any(r[1] == NULL for r in rows):
        f.add("null-value")
    if len({r[0] for r in rows}) < len(rows):
        f.add("group>1")
    return f


def concretise_agg(cases, rng, tier):
    quick = tier == "quick"
    sel = pick(cases, 150 if quick else 2000, rng, agg_features, must=lambda c: len(c["batches"]) >= 2)
    out = []
    for i, c in enumerate(sel):
        shape = AGG_SHAPES[i % 4]
        scale = 1
        if shape == "basic":
            scale = 70          # >= 65 groups in a batch: the fused streaming attempt gives up under a small budget
        elif i % 10 == 8:
            scale = 16
        nb = len(c["batches"])
        h = {"op": "agg", "ktype": "ts" if i % 40 == 39 else KTYPES[(i // 4) % 5], "shape": shape, "batches": c["batches"], "scale": scale,
             "perm": ["asis", "rev", rng.randrange(1, 1 << 30)][i % 3], "leaf": "mem",
             "levels": ([0, "last"] if quick else list(range(nb)) + ["last"]) + (["fit"] if i % 5 == 0 else []), "prod": 1 if i % 4 == 1 else 0}
        out.append({"model": c, "h": h})
    for j, x in enumerate(out):
        x["h"]["id"] = f"a{j}"
    return out


def join_features(c):
    f = {JT[c["jt"]], f"br={c['br']}", f"lb={len(c['left'])}", f"rb={len(c['right'])}"}
    f.add("matches" if any(p[0] != NULL and p[1] != NULL for p in c["exp"]) else "no-match")
    if any(r[0] == NULL for b in c["left"] + c["right"] for r in b):
        f.add("null-key")
    return f


def concretise_join(cases, rng, tier):
    quick = tier == "quick"
    sel = pick(cases, 200 if quick else 2500, rng, join_features)
    out = []
    for i, c in enumerate(sel):
        build = c["right"] if (c["br"] == 1 or c["jt"] == 3) else c["left"]
        nb = len(build)
        kt = KTYPES[i % len(KTYPES)]
        h = {"op": "join", "ktype": kt, "jt": JT[c["jt"]], "build_right": c["br"], "left": c["left"], "right": c["right"],
             "scale": 1 if i % 7 else 5, "perm": ["asis", "rev", rng.randrange(1, 1 << 30)][i % 3], "leaf": "mem",
             "levels": list(range(nb)) + ["last"] + (["fit"] if i % 5 == 0 else []), "prod": 1 if i % 4 == 2 else 0}
        if kt == "i64" and i % 12 == 0:
            h["rktype"] = "i32"       # bigint = integer: both map to the same join value
        out.append({"model": c, "h": h})
    for j, x in enumerate(out):
        x["h"]["id"] = f"j{j}"
    return out


# =====================================================================================  running the harness
def replay_real(ctx, items, tag, procs=4):
    """items: [{"model", "h"}]; returns records aligned with items"""
    if not items:
        return []
    chunks = [items[i::procs] for i in range(procs)]
    chunks = [c for c in chunks if c]

    def one(k):
        inp = os.path.join(ctx.work, f"{tag}.{k}.in.ndjson")
        outp = os.path.join(ctx.work, f"{tag}.{k}.out.ndjson")
        write_ndjson(inp, [x["h"] for x in chunks[k]])
        p = qev(["spill-replay", inp, outp, ctx.work], timeout=3000, check=False)
        if p.returncode != 0:
            vlib.log(p.stderr[-3000:])
            raise vlib.ToolError(f"spill-replay exited {p.returncode} (a crash of the harness process; a panic in the code under test is caught and recorded)")
        return read_ndjson(outp)
    with cf.ThreadPoolExecutor(max_workers=len(chunks)) as ex:
        outs = list(ex.map(one, range(len(chunks))))
    byid = {}
    for k, recs in enumerate(outs):
        if len(recs) != len(chunks[k]):
            raise vlib.ToolError("spill-replay returned a different number of records")
        for r in recs:
            byid[r["id"]] = r
    return [byid[x["h"]["id"]] for x in items]


# =====================================================================================  judgement
def spec_cmp_key(spec):
    """sort key function realising the ORDER BY on key-code tuples"""
    def kf(row):
        out = []
        for v, it in zip(row, spec):
            if v == NULL:
                out.append((0 if it["nf"] else 2, 0))
            else:
                out.append((1, -v if it["desc"] else v))
        return tuple(out)
    return kf


def asbuilt_cmp(a, b, spec, ktypes):
    """streaming_k_way_merge's row comparison as built (since /repo 8429288): NULLs are placed per NULLS FIRST/LAST;
    two values go through compare_array_values (Equal for a type it does not know), reversed for DESC"""
    for x, y, it, kt in zip(a, b, spec, ktypes):
        if x == NULL and y == NULL:
            continue
        if x == NULL:
            return -1 if it["nf"] else 1
        if y == NULL:
            return 1 if it["nf"] else -1
        c = 0 if kt not in MERGE_TYPES else (x > y) - (x < y)
        if it["desc"]:
            c = -c
        if c:
            return c
    return 0


def asbuilt_merge(runs, spec, ktypes):
    heads = [0] * len(runs)
    out = []
    while True:
        m = None
        for i, r in enumerate(runs):
            if heads[i] < len(r):
                if m is None or asbuilt_cmp(r[heads[i]], runs[m][heads[m]], spec, ktypes) < 0:
                    m = i
        if m is None:
            return out
        out.append(runs[m][heads[m]])
        heads[m] += 1


def asbuilt_prediction(h):
    """the key sequence the code as built returns for a spilled sort (None: explicit error from the carried-run cleanup)"""
    kf = spec_cmp_key(h["spec"])
    runs, i = [], 0
    for nb in h["runs"]:
        rows = [tuple(r) for b in h["batches"][i:i + nb] for r in b for _ in range(h.get("scale", 1))]
        runs.append(sorted(rows, key=kf))
        i += nb
    if len(runs) == 1:
        res = runs[0]
    else:
        live = [True] * len(runs)
        p = 0
        while len(runs) > FANIN:
            nxt, nlive, carried = [], [], []
            for s in range(0, len(runs), FANIN):
                ch = runs[s:s + FANIN]
                if len(ch) == 1:
                    nxt.append(ch[0]); nlive.append(live[s]); carried.append(True)
                else:
                    if not all(live[s:s + FANIN]):
                        return None
                    m = asbuilt_merge(ch, h["spec"], h["ktypes"])
                    if m:
                        nxt.append(m); nlive.append(True); carried.append(False)
            if p > 0:
                nlive = [l and not c for l, c in zip(nlive, carried)]
            runs, live, p = nxt, nlive, p + 1
        if not all(live):
            return None
        res = asbuilt_merge(runs, h["spec"], h["ktypes"])
    res = [list(r) for r in res]
    return res if h["fetch"] < 0 else res[: h["fetch"] * h.get("scale", 1)]


def expand(keys, scale):
    return [k for k in keys for _ in range(scale)]


def judge_sort(item, rec):
    """returns list of (tag, verdict, detail); verdict in ok | error | violation:<why> | known:<id>:<why> | drift:<why> | skip"""
    h, m = item["h"], item["model"]
    scale = h.get("scale", 1)
    nrows = sum(len(b) for b in h["batches"])
    rowkey = [list(r) for b in h["batches"] for r in b]           # model row index -> key (ids are assigned in this order)
    want = expand(m["exp"], scale)
    unl = next((r for r in rec["runs"] if r["tag"] == "unl"), None)

    def acceptable(r):
        if r["k"] != "rows":
            return r["k"]
        keys, ids = r["rows"]["keys"], r["rows"]["ids"]
        if keys != want:
            if len(keys) != len(want):
                return f"{len(keys)} rows, expected {len(want)}"
            i = next(i for i in range(len(keys)) if keys[i] != want[i])
            return f"key sequence differs from the ORDER BY at position {i}: {keys[max(0, i - 2):i + 3]} vs {want[max(0, i - 2):i + 3]}"
        if len(set(ids)) != len(ids):
            return "a row is returned twice"
        for k, i in zip(keys, ids):
            if not isinstance(i, int) or not (0 <= i < nrows * scale) or rowkey[i // scale] != k:
                return f"row id {i} does not carry key {k}"
        return None

    def same(a, b):
        return a["k"] == "rows" and b["k"] == "rows" and a["rows"]["keys"] == b["rows"]["keys"] and sorted(map(str, a["rows"]["ids"])) == sorted(map(str, b["rows"]["ids"]))

    out = []
    unl_why = acceptable(unl) if unl else "missing"
    for r in rec["runs"]:
        if r["tag"] == "unl":
            out.append(("unl", "ok" if unl_why is None else f"drift:unlimited run: {unl_why}", None))
            continue
        if r["k"] == "skip":
            out.append((r["tag"], "skip", None))
            continue
        why = acceptable(r)
        if why is None:
            out.append((r["tag"], "ok", None))
        elif why == "err":
            out.append((r["tag"], "error", r["msg"]))
        elif why in ("panic", "hang"):
            out.append((r["tag"], classify_sort(h, m, r, f"{why} instead of an answer or an explicit error: {r['msg'][:160]}"), None))
        elif unl and unl_why is not None and same(r, unl):
            out.append((r["tag"], f"drift:same as the unlimited run, both differ from the model: {why}", None))
        else:
            out.append((r["tag"], classify_sort(h, m, r, why), None))
    return out


def classify_sort(h, m, r, why):
    scale = h.get("scale", 1)
    spilled_multi = h["path"] == "spill" and len(h["runs"]) >= 2
    if spilled_multi:
        if sum(len(b) for b in h["batches"]) * scale >= MERGE_BUFFER_ROWS:
            return f"known:{F_BIGRUN}:{why}"
        if r["k"] == "rows":
            pred = asbuilt_prediction(h)
            rows = [rr for b in h["batches"] for rr in b]
            if pred is not None and r["rows"]["keys"] == pred:
                if any(kt not in MERGE_TYPES for kt in h["ktypes"]):
                    return f"known:{F_TYPE}:{why}"
    return f"violation:{why}"


def agg_expected(h, m):
    scale = h.get("scale", 1)
    shape = h["shape"]
    exp = []
    if shape == "global":
        g = m["glob"]
        exp.append((g[0] * scale if g[0] != NULL else NULL, g[1] * scale if g[1] != NULL else NULL, g[2], g[3], g[4]))
        return exp
    for g in m["exp"]:
        for j in range(scale):
            kk = (g[0],) + ((j,) if scale > 1 else ())
            if shape == "keys":
                exp.append(kk)
            elif shape == "basic":
                exp.append(kk + tuple(g[1:5]))
            else:
                exp.append(kk + tuple(g[1:6]))
    return exp


def judge_bag(item, rec, expected, classify):
    want = collections.Counter(map(tuple, expected))
    unl = next((r for r in rec["runs"] if r["tag"] == "unl"), None)

    def acceptable(r):
        if r["k"] != "rows":
            return r["k"]
        got = collections.Counter(tuple(x) for x in r["rows"])
        if got == want:
            return None
        miss = list((want - got).elements())[:3]
        extra = list((got - want).elements())[:3]
        return f"result bag differs: missing {miss} unexpected {extra} ({sum(got.values())} rows, expected {sum(want.values())})"

    def same(a, b):
        return a["k"] == "rows" and b["k"] == "rows" and collections.Counter(tuple(x) for x in a["rows"]) == collections.Counter(tuple(x) for x in b["rows"])

    out = []
    unl_why = acceptable(unl) if unl else "missing"
    for r in rec["runs"]:
        if r["tag"] == "unl":
            out.append(("unl", "ok" if unl_why is None else f"drift:unlimited run: {unl_why}", None))
            continue
        why = acceptable(r)
        if why is None:
            out.append((r["tag"], "ok", None))
        elif why == "err":
            out.append((r["tag"], "error", r["msg"]))
        elif why in ("panic", "hang"):
            out.append((r["tag"], classify(item, r, want, f"{why} instead of an answer or an explicit error: {r['msg'][:160]}"), None))
        elif unl and unl_why is not None and same(r, unl):
            out.append((r["tag"], f"drift:same as the unlimited run, both differ from the model: {why}", None))
        else:
            out.append((r["tag"], classify(item, r, want, why), None))
    return out


def classify_agg(item, r, want, why):
    h = item["h"]
    if r["k"] == "rows" and h["shape"] == "basic":            # COUNT/SUM/MIN/MAX without a DISTINCT aggregate: the vectorized group table
        got = collections.Counter(tuple(x) for x in r["rows"])
        nn = lambda c: collections.Counter({k: v for k, v in c.items() if k[0] != NULL})
        if nn(got) == nn(want) and any(k[0] == NULL for k in want):
            return f"known:{F_AGGNULL}:{why}"
    return f"violation:{why}"


def join_expected(h, m):
    scale = h.get("scale", 1)
    lk = {r[1]: r[0] for b in h["left"] for r in b}
    rk = {r[1]: r[0] for b in h["right"] for r in b}
    exp = []
    semi = h["jt"] in ("semi", "anti")
    for (l, r) in m["exp"]:
        ls = [l * scale + a for a in range(scale)] if l != NULL else [NULL]
        rs = [r * scale + a for a in range(scale)] if r != NULL else [NULL]
        for x in ls:
            for y in rs:
                if semi:
                    exp.append((x, lk[l]))
                else:
                    exp.append((x, y, lk[l] if l != NULL else NULL, rk[r] if r != NULL else NULL))
    return exp


def classify_join(item, r, want, why):
    h = item["h"]
    if r["k"] == "rows" and h["jt"] == "inner" and r.get("spilled", 0) >= 0 and r.get("files") is not None:
        kts = {h["ktype"], h.get("rktype", h["ktype"])}
        got = collections.Counter(tuple(x) for x in r["rows"])
        if (kts - JOINKEY_TYPES) and not (got - want):      # matches lost, nothing invented
            return f"known:{F_JOINKEY}:{why}"
    return f"violation:{why}"


def judge(item, rec):
    op = item["h"]["op"]
    if op == "sort":
        return judge_sort(item, rec)
    if op == "agg":
        return judge_bag(item, rec, agg_expected(item["h"], item["model"]), classify_agg)
    return judge_bag(item, rec, join_expected(item["h"], item["model"]), classify_join)


def path_checks(item, rec):
    """evidence that the intended path ran; returns (list of vacuity problems, facts)"""
    h = item["h"]
    probs, facts = [], collections.Counter()
    for r in rec["runs"]:
        if r["k"] == "skip":
            facts["unrealizable_threshold"] += 1
            continue
        spilled, files = r.get("spilled", 0), r.get("files")
        if r["tag"] == "unl":
            if spilled or files:
                probs.append(f"{h['id']}: the unlimited run spilled")
            continue
        if r.get("outside"):
            facts["spill_dir_unobserved"] += 1      # the harness lost track of the engine's spill counter twice in a row: no path evidence for this run
            continue
        if h["op"] == "sort":
            if h["path"] == "spill":
                if spilled != rec["total"]:
                    probs.append(f"{h['id']}/{r['tag']}: spilled bytes {spilled} != sum of batch estimates {rec['total']} (estimate replica or flush rule drifted)")
                nruns = len([f for f in (files or []) if f.startswith("run_")])
                if files is not None and nruns != len(h["runs"]):
                    probs.append(f"{h['id']}/{r['tag']}: {nruns} run files, the model has {len(h['runs'])} runs")
                if files is not None:
                    facts["sort_spilled_runs_observed"] += 1
                    if any(f.startswith("merged_pass") for f in files):
                        facts["sort_multipass_observed"] += 1
                    if len(h["runs"]) >= 2:
                        facts["sort_kway_merge_observed"] += 1
            elif spilled or files:
                probs.append(f"{h['id']}/{r['tag']}: a sort that fits its budget exactly spilled")
            else:
                facts["sort_in_memory_at_boundary"] += 1
        else:
            if r["tag"] == "fit":
                if spilled or files:
                    probs.append(f"{h['id']}: {h['op']} spilled although the budget equals the input estimate")
                else:
                    facts[h["op"] + "_in_memory_at_boundary"] += 1
            elif files is not None:
                facts[h["op"] + "_spill_path_observed"] += 1
                if h["op"] == "agg" and any(f.startswith("part_") for f in files):
                    facts["agg_partition_evicted"] += 1
                if h["op"] == "agg" and any(f.startswith("merged_") for f in files):
                    facts["agg_partition_evicted_twice"] += 1
                if h["op"] == "join" and any(f.startswith("probe_") for f in files):
                    facts["join_probe_rows_spilled"] += 1
                if h["op"] == "join" and r["k"] == "rows" and r["rows"]:
                    facts["join_answered_after_spill"] += 1
            elif r["k"] == "err" and h["op"] == "join" and h["jt"] != "inner":
                facts["join_non_inner_refused"] += 1
            elif h["op"] == "agg" and h["shape"] == "basic" and h.get("scale", 1) < 65:
                facts["agg_fused_streaming_no_spill"] += 1
            else:
                probs.append(f"{h['id']}/{r['tag']}: {h['op']} under threshold {r.get('thr')} < input estimate {rec['total']} did not enter the spill path")
    return probs, facts


def small_case(item):
    h = item["h"]
    c = {"spill_case": h}
    c["model"] = {k: v for k, v in item["model"].items() if k in ("exp", "glob", "runs", "path", "outcome", "T", "passes", "fanin", "jt", "br")}
    if h.get("scale", 1) > 64:
        c["note"] = "rows of the model case are replicated `scale` times"
    return c


def assess(ctx, items, recs):
    verdicts = collections.Counter()
    errors = collections.Counter()
    vac, facts = [], collections.Counter()
    nontrivial = set()
    for item, rec in zip(items, recs):
        h = item["h"]
        p, f = path_checks(item, rec)
        vac += p
        facts.update(f)
        for tag, v, detail in judge(item, rec):
            ctx.add("evaluations")
            kind = v.split(":", 1)[0]
            if h["op"] == "sort" and tag != "unl" and h["path"] == "spill" and kind in ("ok", "error"):
                facts[f"sort_model_says_{item['model']['outcome']}_real_{'error' if kind == 'error' else 'rows'}"] += 1
            verdicts[f"{h['op']}:{kind}"] += 1
            if kind == "error":
                msg = detail or ""
                cause = ("join spill path supports only INNER" if "supports only INNER" in msg else
                         "carried run deleted by multi-pass cleanup (Failed to open run file)" if "Failed to open run file" in msg else
                         "build partition evicted while empty has no file (Failed to open parquet file)" if "Failed to open parquet file" in msg else msg[:80])
                errors[f"{h['op']}: {cause}"] += 1
            elif kind == "violation":
                ctx.violation(small_case(item), f"{h['op']} {h['id']} run {tag}: {v.split(':', 1)[1]}")
            elif kind == "known":
                _, fid, why = v.split(":", 2)
                if ctx.is_known(fid):
                    ctx.known(fid, {"op": h["op"], "id": h["id"], "run": tag, "why": why[:200], "ktypes": h.get("ktypes", h.get("ktype")), "spec": h.get("spec"),
                                    "runs": h.get("runs"), "scale": h.get("scale")})
                else:
                    ctx.violation(small_case(item), f"{h['op']} {h['id']} run {tag}: {why}")
            elif kind == "drift":
                ctx.add("reference_drift")
                if len(ctx.notes) < 12:
                    ctx.notes.append(f"{h['op']} {h['id']} ({h.get('ktype', h.get('ktypes'))}, {h.get('shape', h.get('jt', ''))}) {v[:260]}")
        rows = sum(len(b) for b in h.get("batches", h.get("left", [])))
        if rows >= 2 and any(r.get("files") is not None for r in rec["runs"]):
            nontrivial.add(vlib.chash([h["op"], h.get("batches"), h.get("left"), h.get("right"), h.get("spec"), h.get("fetch"), h.get("shape"), h.get("jt"), h.get("ktypes", h.get("ktype"))]))
    return verdicts, errors, vac, facts, nontrivial


NEED_FACTS = ["sort_spilled_runs_observed", "sort_kway_merge_observed", "sort_multipass_observed", "sort_in_memory_at_boundary",
              "agg_spill_path_observed", "agg_partition_evicted", "join_spill_path_observed", "join_probe_rows_spilled",
              "join_answered_after_spill", "join_non_inner_refused"]


def run_spill_model(ctx):
    rng = random.Random(ctx.seed * 1000003 + 8)
    t0 = time.time()
    cases = run_models(ctx)
    t1 = time.time()
    for c in cases["agg"]:                    # cross-check of the model's global aggregate (exact integers)
        vs = [r[1] for b in c["batches"] for r in b if r[1] != NULL]
        if c["glob"] != [len(vs), sum(vs) if vs else NULL, min(vs) if vs else NULL, max(vs) if vs else NULL, len(set(vs))]:
            raise vlib.ToolError(f"SpillAgg emitted a global aggregate the driver cannot reproduce: {c}")
    items = concretise_sort(cases["sort"], rng, ctx.tier) + concretise_agg(cases["agg"], rng, ctx.tier) + concretise_join(cases["join"], rng, ctx.tier)
    recs = replay_real(ctx, items, "spill", procs=4 if ctx.tier == "quick" else 8)
    if os.environ.get("VERIF_SPILL_DEBUG"):
        json.dump(items, open(os.path.join(ctx.work, "items.json"), "w"))
    t2 = time.time()
    verdicts, errors, vac, facts, nontrivial = assess(ctx, items, recs)
    ctx.set("spill_model_cases_from_tlc", {k: len(v) for k, v in cases.items()})
    ctx.set("spill_model_cases_replayed", dict(collections.Counter(x["h"]["op"] for x in items)))
    ctx.set("spill_model_verdicts", dict(verdicts))
    ctx.set("spill_model_explicit_errors", dict(errors))
    ctx.set("spill_paths_observed", dict(facts))
    ctx.set("spill_model_key_types", dict(collections.Counter(kt for x in items for kt in x["h"].get("ktypes", [x["h"].get("ktype")]))))
    ctx.set("spill_model_wall", {"tlc_s": round(t1 - t0, 1), "replay_s": round(t2 - t1, 1)})
    ctx.add("distinct_nontrivial", len(nontrivial))
    ctx.add("traces_validated_against_impl", len(recs))
    for x in (items[0], items[len(items) // 2], items[-1]):
        ctx.sample({"spill_case": {k: v for k, v in x["h"].items() if k != "batches" or len(str(v)) < 300}, "expected": str(x["model"].get("exp"))[:200]})
    missing = [f for f in NEED_FACTS if facts.get(f, 0) == 0]
    if vac or missing:
        msg = "; ".join(vac[:5] + [f"never observed: {m}" for m in missing])
        if ctx.tier == "thorough":
            raise vlib.ToolError(f"spill model vacuity: {len(vac)} path problems, {len(missing)} situations never observed: {msg}")
        ctx.notes.append(f"spill model (quick): {len(vac)} path problems / {len(missing)} situations not observed: {msg[:600]}")
    ctx.assumptions += [
        "spill model: the harness sizes batches with a replica of the engine's private estimate_batch_size; the replica is checked on every spilled sort "
        "(MemoryPool::spilled() must equal the sum of the replica's sizes) and at the fits-exactly boundary of every operator",
        "spill model: aggregation and join are replayed under thresholds derived from the input estimate (nothing fits / first j batches fit / one byte short / fits exactly); "
        "which partitions the real xxh64 hash evicts is observed (file names), not prescribed — the models quantify over every hash function",
        "spill model: an unlimited-budget answer that itself deviates from the model (NULL group keys on the in-memory aggregation paths) is recorded as reference drift, "
        "not as a C08 violation, when the limited run returns the same rows"]
    rule = ("spill model: TLC checks the three step machines exhaustively inside the bounds of spec/ExternalSort*.cfg, SpillAgg*.cfg, SpillJoin*.cfg; a feature-covering, "
            "VERIF_SEED-chosen sample of the emitted inputs is replayed on the real operators (six key types, rows permuted inside batches, production 0.8 threshold factor on a "
            "quarter of the cases, both ends of the admissible threshold interval). distinct_nontrivial counts distinct (operator, input, option, key type) cases with >= 2 rows "
            "whose limited run was observed creating spill files.")
    ctx.set("spill_model_rule", rule)


# =====================================================================================  replay
def is_spill_replay(obj):
    return isinstance(obj.get("case"), dict) and "spill_case" in obj["case"]


def replay_spill_model(ctx, obj):
    h = obj["case"]["spill_case"]
    item = {"h": h, "model": obj["case"]["model"]}
    recs = replay_real(ctx, [item], "replay", procs=1)
    verdicts, errors, vac, facts, nontrivial = assess(ctx, [item], recs)
    ctx.set("distinct_nontrivial", 1)
    ctx.sample({"verdicts": dict(verdicts), "record": json.dumps(recs[0])[:1500]})


# =====================================================================================  selftest
def selftest_spill_model(ctx):
    bad = 0
    # (1) the models are sensitive: seeded mistakes are refuted by TLC
    def one(j):
        return j, run_tlc(j[0], j[1], workers=3, timeout=1800, heap="4g", tag=f"C08-st-{j[1][:-4]}")
    with cf.ThreadPoolExecutor(max_workers=3) as ex:
        for (mod, cfg, inv, label), res in ex.map(one, NEGATIVE):
            ok = res.violated == inv
            print(f"selftest: {'refuted' if ok else 'NOT REFUTED'} by TLC ({cfg}, invariant {inv}): {label}")
            bad += 0 if ok else 1
    # (2) the judgement rejects corrupted real records
    N = NULL
    sort_m = {"batches": [[[1], [N]], [[0], [1]], [[2]]], "T": 1, "fam": "splits", "fanin": 8, "spec": [{"desc": 0, "nf": 0}], "fetch": -1, "path": "spill",
              "runs": [1, 1, 1], "passes": 0, "outcome": "rows", "exp": [[0], [1], [1], [2], [N]]}
    sort_h = {"id": "st-s", "op": "sort", "ktypes": ["i64"], "batches": sort_m["batches"], "spec": sort_m["spec"], "fetch": -1, "path": "spill", "runs": [1, 1, 1],
              "scale": 1, "perm": "rev", "leaf": "mem", "thr": ["lo"], "prod": 0}
    fetch_m = dict(sort_m, fetch=2, exp=[[0], [1]])
    fetch_h = dict(sort_h, id="st-f", fetch=2)
    agg_m = {"batches": [[[0, 1], [1, 2]], [[0, 2], [1, N]], [[0, 1]]], "exp": [[0, 3, 4, 1, 2, 2], [1, 1, 2, 2, 2, 1]], "glob": [4, 6, 1, 2, 2]}
    agg_h = {"id": "st-a", "op": "agg", "ktype": "i64", "shape": "distinct", "batches": agg_m["batches"], "scale": 1, "perm": "asis", "leaf": "mem", "levels": [0], "prod": 0}
    join_m = {"left": [[[0, 1], [1, 2]], [[2, 3]]], "right": [[[1, 1]], [[1, 2], [N, 3]]], "jt": 2, "br": 0,
              "exp": [[1, N], [2, 1], [2, 2], [3, N]]}
    join_h = {"id": "st-j", "op": "join", "ktype": "utf8", "jt": "left", "build_right": 0, "left": join_m["left"], "right": join_m["right"], "scale": 1, "perm": "asis",
              "leaf": "mem", "levels": ["fit"], "prod": 0}
    inner_m = dict(join_m, jt=1, exp=[[2, 1], [2, 2]])
    inner_h = dict(join_h, id="st-i", jt="inner", levels=[1])
    items = [{"h": sort_h, "model": sort_m}, {"h": fetch_h, "model": fetch_m}, {"h": agg_h, "model": agg_m}, {"h": join_h, "model": join_m}, {"h": inner_h, "model": inner_m}]
    recs = replay_real(ctx, items, "selftest", procs=1)

    def verdict_kinds(item, rec):
        return [v.split(":", 1)[0] for _, v, _ in judge(item, rec) if _ != "unl"]
    for item, rec in zip(items, recs):
        ks = verdict_kinds(item, rec)
        p, _ = path_checks(item, rec)
        if any(k not in ("ok",) for k in ks) or p:
            print(f"selftest: the unmodified record of {item['h']['id']} is not accepted: {judge(item, rec)} {p}")
            bad += 1

    def lim(rec):
        return next(r for r in rec["runs"] if r["tag"] != "unl")
    muts = []
    r = copy.deepcopy(recs[0]); x = lim(r); x["rows"]["keys"].pop(); x["rows"]["ids"].pop()
    muts.append((0, r, "the merge drops the tail of the last run (last row missing)"))
    r = copy.deepcopy(recs[0]); x = lim(r); x["rows"]["keys"][1], x["rows"]["keys"][3] = x["rows"]["keys"][3], x["rows"]["keys"][1]; x["rows"]["ids"][1], x["rows"]["ids"][3] = x["rows"]["ids"][3], x["rows"]["ids"][1]
    muts.append((0, r, "a run reaches the merge unsorted (two rows out of order)"))
    r = copy.deepcopy(recs[0]); x = lim(r); x["rows"]["ids"][2] = x["rows"]["ids"][1]
    muts.append((0, r, "a tied row is returned twice and its twin lost"))
    r = copy.deepcopy(recs[1]); x = lim(r); x["rows"]["keys"] = [[0], [1], [1]]; x["rows"]["ids"] = [2, 0, 3]
    muts.append((1, r, "fetch applied per run instead of after the merge (3 rows for LIMIT 2)"))
    r = copy.deepcopy(recs[2]); x = lim(r)
    for row in x["rows"]:
        if row[0] == 0:
            row[1] += 2; row[2] += 3
    muts.append((2, r, "a spilled aggregation partition is counted twice (COUNT/SUM too large)"))
    r = copy.deepcopy(recs[2]); x = lim(r); x["rows"].append(list(x["rows"][0]))
    muts.append((2, r, "a group is split across partitions (same key twice in the result)"))
    r = copy.deepcopy(recs[3]); x = lim(r); x["rows"] = [row for row in x["rows"] if row[1] != N]
    muts.append((3, r, "an outer join loses its NULL-extended rows"))
    r = copy.deepcopy(recs[4]); x = lim(r); x["rows"] = x["rows"][:-1]
    muts.append((4, r, "a spilled build partition's matches are dropped"))
    for idx, r, why in muts:
        ks = verdict_kinds(items[idx], r)
        ok = "violation" in ks
        print(f"selftest: {'rejected' if ok else 'ACCEPTED (binding lost)'}: {why}")
        bad += 0 if ok else 1
    # (3) vacuity guard: a spill case whose record shows no spill is reported
    r = copy.deepcopy(recs[0]); x = lim(r); x["spilled"] = 0; x["files"] = None
    p, _ = path_checks(items[0], r)
    print(f"selftest: {'reported' if p else 'NOT REPORTED'}: a case meant to spill whose run did not spill")
    bad += 0 if p else 1
    return 1 if bad else 0


# =====================================================================================  standalone driver
def main():
    import argparse
    ap = argparse.ArgumentParser()
    ap.add_argument("--tier", default="quick", choices=["quick", "thorough"])
    ap.add_argument("--selftest", action="store_true")
    ap.add_argument("--replay")
    ap.add_argument("--no-build", action="store_true")
    a = ap.parse_args()
    os.chdir(vlib.ROOT)
    seed = int(os.environ.get("VERIF_SEED", "1") or 1)
    ctx = vlib.Ctx("C08", a.tier, seed, "model_checking")
    ctx.work = vlib.workdir(f"C08/spillmodel-{a.tier}-{seed}")
    try:
        if not a.no_build:
            vlib.build_harness()
        if a.selftest:
            return selftest_spill_model(ctx)
        if a.replay:
            replay_spill_model(ctx, json.load(open(a.replay)))
        else:
            run_spill_model(ctx)
        return ctx.finish()
    except vlib.ToolError as e:
        print(f"TOOL-ERROR property=C08: {e}", file=sys.stderr)
        return 2


if __name__ == "__main__":
    sys.exit(main())
