"""C19 — rewritten files are never served from a stale cache (CacheCoherence.tla).

(M)  TLC proves `Fresh` (every answer of every query is computed from the file's current content) for the
     IDEAL cache keys (len, mtime_ns, change generation) over all histories in the bound, and REFUTES it
     for the keys the code has (footer: mtime only; sidecar stamp: len + mtime seconds) — the two
     counterexamples are the two known history shapes.
(R)  With the as-built keys the same module is the generator of every history in the bound (write /
     query / query in a fresh process / external sidecar build; rewrites with same or other length and
     later / same-second / preserved mtime) and the predictor of which queries those keys make stale.
     Every history is executed on real files in one engine process per QE_IPC_CACHE mode
     (harness/src/cache.rs); after every query step the four answers (morsel aggregate, streaming scan,
     eager filtered scan, dictionary-group scan) must be the answers of the CURRENT content.

contract (VIOLATION): an answer (or error, or panic) that is not the current content's answer, in a query
     the as-built key model does not flag (no stale footer entry hit, no stale sidecar accepted).
known findings: the same where the model flags the query — classified by history shape.
fidelity (notes): a flagged query that nevertheless answers correctly (the stale entry is not visible on
     that path), the `.complete` stamp text, which statements consult which cache.
"""
import collections
import copy
import json
import os
import re
import shutil

import vlib
from vlib import tlc_must_pass, qev, write_ndjson, read_ndjson, chash
from vlib import run_tlc as _run_tlc_once


def run_tlc(*a, **kw):
    """TLC's state-pool files live under the shared work/tlc directory; if somebody else's clean-up removes them
    under a running TLC ('when reading pool file' / 'when writing the disk') the run is repeated once."""
    r = _run_tlc_once(*a, **kw)
    if r.error and re.search(r"StatePool|pool file|when writing the disk", r.error):
        vlib.log(f"[tlc] state-pool file lost under a running TLC ({kw.get('tag')}); repeating the run once")
        r = _run_tlc_once(*a, **kw)
    return r

LEVEL = "model_checking"
KINDS = ["agg", "scan", "filter", "group"]
MODE_ENV = {0: "0", 1: "1", 2: None}          # model mode -> QE_IPC_CACHE (None = unset = auto)
MODE_NAME = {0: "QE_IPC_CACHE=0", 1: "QE_IPC_CACHE=1", 2: "QE_IPC_CACHE unset (auto)"}
F_FOOTER = "C19/footer-cache-mtime-preserved"
F_SIDECAR = "C19/sidecar-same-second-same-length"
F_POISON = "C19/sidecar-built-through-stale-footer"
BASE_SEC = 1_700_000_000


# --------------------------------------------------------------------------------------------
# concretisation: content versions (rows AND row-group layout differ; v2 is not dictionary encoded;
# v1 and v3 have the same number of row groups, so a stale sidecar can answer silently)

def _rgs(start, n, per):
    xs = list(range(start, start + n * per))
    return [xs[i * per:(i + 1) * per] for i in range(n)]


VERSIONS = [{"rgs": _rgs(10, 5, 4), "dict": 1}, {"rgs": _rgs(20, 7, 3), "dict": 0}, {"rgs": _rgs(30, 5, 2), "dict": 1}]


def rows_of(v):
    return [x for g in VERSIONS[v - 1]["rgs"] for x in g]


def expected(v, kind):
    xs = rows_of(v)
    if kind == "agg":
        rows = [[len(xs), sum(xs), min(xs) * 10, max(xs) * 10]]
    elif kind == "scan":
        rows = [[x, "k%d" % (x % 3), 10 * x] for x in xs]
    elif kind == "filter":
        rows = [[x, 10 * x] for x in xs if x >= 25]
    else:
        rows = [["k%d" % m, len([x for x in xs if x % 3 == m]), sum(x for x in xs if x % 3 == m)]
                for m in range(3) if any(x % 3 == m for x in xs)]
    return sorted(rows, key=lambda r: json.dumps(r, separators=(",", ":")))


EXPECTED = {(v, k): expected(v, k) for v in (1, 2, 3) for k in KINDS}


def classify(ans, kind):
    """what an observed answer is: 'v<k>' (exactly the answer of content k), 'error', 'panic', 'other'"""
    if "rows" in ans:
        for v in (1, 2, 3):
            if ans["rows"] == EXPECTED[(v, kind)]:
                return f"v{v}"
        return "other"
    if "panic" in ans:
        return "panic"
    return "error"


# --------------------------------------------------------------------------------------------
# cases

def hist_key(case):
    return chash({"mode": case["mode"], "steps": [{k: s[k] for k in ("a", "p", "v", "lc", "tc") if k in s} for s in case["steps"]]})


def prepare(cases, variants=None):
    """dedupe, attach the concretisation variant (content-derived) and the creation steps"""
    seen, out = set(), []
    for c in cases:
        h = hist_key(c)
        if h in seen:
            continue
        seen.add(h)
        for var in (variants if variants is not None else [int(h, 16) % 4]):
            # xreal: XQuery / Build steps run in really fresh processes (a sample; the others use a fresh path alias)
            d = {"mode": c["mode"], "steps": c["steps"], "key": h, "repl": var % 2, "shared_ctx": var // 2,
                 "xreal": 1 if int(h, 16) % 16 == 5 else 0}
            out.append(d)
    return out


def concrete(case):
    paths = sorted({s["p"] for s in case["steps"]})
    steps = [{"a": "write", "p": p, "v": 1, "len": 0, "sec": 0, "ns": 0} for p in paths]
    for s in case["steps"]:
        if s["a"] == "write":
            steps.append({"a": "write", "p": s["p"], "v": s["v"], "len": s["len"], "sec": s["sec"], "ns": s["ns"]})
        else:
            steps.append({"a": s["a"], "p": s["p"]})
    return {"key": case["key"], "mode": case["mode"], "repl": case["repl"], "shared_ctx": case["shared_ctx"], "xreal": case.get("xreal", 0),
            "versions": VERSIONS, "steps": steps, "npre": len(paths)}


def run_harness(ctx, cases, tag, keep=False):
    """one engine process per mode (started together); returns observations aligned with `cases`"""
    from concurrent.futures import ThreadPoolExecutor
    obs = [None] * len(cases)
    old = os.environ.pop("QE_IPC_CACHE", None)

    def one(job):
        mode, part, nparts = job
        idx = [i for i, c in enumerate(cases) if c["mode"] == mode][part::nparts]
        if not idx:
            return
        inp = os.path.join(ctx.work, f"{tag}.m{mode}.{part}.in.ndjson")
        outp = os.path.join(ctx.work, f"{tag}.m{mode}.{part}.out.ndjson")
        write_ndjson(inp, [concrete(cases[i]) for i in idx])
        env = {"RAYON_NUM_THREADS": "4"}
        if MODE_ENV[mode] is not None:
            env["QE_IPC_CACHE"] = MODE_ENV[mode]
        args = ["cache-replay", inp, outp, os.path.join(ctx.work, "files"), "4"] + (["keep"] if keep else [])
        p = qev(args, timeout=3000, env=env, check=False)
        if p.returncode != 0:
            vlib.log(p.stderr[-3000:])
            raise vlib.ToolError(f"cache-replay exited {p.returncode} in mode {mode} (materialiser problem, not a verdict)")
        outs = read_ndjson(outp)
        if len(outs) != len(idx):
            raise vlib.ToolError("cache-replay lost histories")
        for i, o in zip(idx, outs):
            obs[i] = o["obs"][o["npre"]:]

    try:
        # in-process sidecar builds are serialised by the engine's BUILD_LOCK: mode 1 is spread over three processes
        jobs = [(m, part, n) for m in sorted({c["mode"] for c in cases}) for n in [3 if m == 1 else 1] for part in range(n)]
        with ThreadPoolExecutor(max_workers=len(jobs)) as ex:
            for f in [ex.submit(one, j) for j in jobs]:
                f.result()
    finally:
        if old is not None:
            os.environ["QE_IPC_CACHE"] = old
    return obs


# --------------------------------------------------------------------------------------------
# judge

def judge_history(case, obs):
    """-> list of findings/violations/drift per query step:
       (step index, kind, verdict, detail) with verdict in ok | known:<id> | violation | drift"""
    out = []
    if len(obs) != len(case["steps"]):
        raise vlib.ToolError("harness returned a different number of steps")
    stamp = {}
    for i, (s, o) in enumerate(zip(case["steps"], obs)):
        if s["a"] == "write":
            stamp[s["p"]] = "v2:%d:%d" % (o["len"], BASE_SEC + s["sec"])
        if s["a"] not in ("query", "xquery"):
            continue
        pred = s["pred"]
        ans = o.get("ans")
        if ans is None or "child_failed" in ans:
            raise vlib.ToolError(f"query step without answers: {json.dumps(o)[:300]}")
        for k, kind in enumerate(KINDS):
            got = classify(ans[kind], kind)
            fresh = got == f"v{pred['v']}"
            if fresh:
                out.append((i, kind, "drift" if pred["stale"][k] == 1 else "ok", got))
                continue
            sc = o.get("sidecar")
            if pred["ss"] == 1 and pred["scv"] == 0:
                # the model says a sidecar was built through a stale footer entry; on disk that is a sidecar carrying the
                # CURRENT stamp (the first write of a path has model sec 0 and length class 0)
                cur = stamp.get(s["p"], "v2:%d:%d" % (case.get("len0", 0), BASE_SEC))
                if sc is not None and (sc["stamp"] == cur or s["p"] not in stamp):
                    fid = F_POISON
                else:
                    fid = F_FOOTER if pred["fs"] == 1 else None      # the build failed instead: plain stale footer, or unexplained
            elif pred["ss"] == 1:
                fid = F_SIDECAR
            elif pred["fs"] == 1:
                fid = F_FOOTER
            else:
                fid = None
            detail = got if got.startswith("v") or got == "other" else f"{got}: {str(ans[kind].get('err', ans[kind].get('panic')))[:120]}"
            out.append((i, kind, f"known:{fid}" if fid else "violation", detail))
    return out


def shape(case, upto):
    """compact text of a history up to and including step `upto`"""
    t = []
    for s in case["steps"][:upto + 1]:
        if s["a"] == "write":
            t.append("W%d[v%d,%s,%s]" % (s["p"], s["v"], ("len=", "len#")[s["lc"]], ("later", "same-second", "mtime-preserved", "earlier-second", "earlier-subsecond")[s["tc"]]))
        else:
            t.append({"query": "Q", "xquery": "XQ", "build": "B"}[s["a"]] + str(s["p"]))
    return MODE_NAME[case["mode"]] + ": " + " ".join(t)


def nontrivial(case):
    """some cache entry for p existed when p was replaced, and p is queried afterwards"""
    touched, replaced = set(), set()
    for s in case["steps"]:
        if s["a"] == "write":
            if s["p"] in touched:
                replaced.add(s["p"])
        elif s["a"] in ("query", "xquery") and s["p"] in replaced:
            return True
        if s["a"] != "write":
            touched.add(s["p"])
    return False


def account(ctx, cases, obs, stats):
    for c, o in zip(cases, obs):
        stats["modes"][c["mode"]] += 1
        stats["variants"][f"repl{c['repl']}/shared{c['shared_ctx']}"] += 1
        cur = {}
        for s in c["steps"]:
            stats["actions"][s["a"]] += 1
            if s["a"] == "write":
                stats["writes"][f"lc{s['lc']}/tc{s['tc']}"] += 1
        for (i, kind, verdict, detail) in judge_history(c, o):
            ctx.add("evaluations")
            s = c["steps"][i]
            stats["verdicts"][verdict] += 1
            stats["observed"][detail.split(":")[0] if not detail.startswith("v") else ("current" if verdict in ("ok", "drift") else "old-version")] += 1
            if s["pred"]["ds"] == 1:
                stats["stale_dict_cols_queries"][verdict] += 1
            if verdict == "violation":
                ctx.violation({"case": c, "step": i, "kind": kind, "observed": o[i]},
                              f"{shape(c, i)}: statement '{kind}' answered {detail}, current content is v{s['pred']['v']} "
                              f"and neither a stale footer entry nor a stale sidecar explains it")
            elif verdict.startswith("known:"):
                fid = verdict[6:]
                stats["known_by_kind"][f"{fid}/{kind}/{detail.split(':')[0]}"] += 1
                if ctx.is_known(fid):
                    ctx.known(fid, {"history": shape(c, i), "statement": kind, "answered": detail, "current": f"v{s['pred']['v']}"})
                else:
                    ctx.violation({"case": c, "step": i, "kind": kind, "observed": o[i]},
                                  f"{shape(c, i)}: statement '{kind}' answered {detail} instead of v{s['pred']['v']} ({fid} is not listed as open)")
            elif verdict == "drift":
                stats["drift"][f"{kind}: predicted stale, answered current (mode {c['mode']}, fs={s['pred']['fs']} ss={s['pred']['ss']})"] += 1
        # fidelity: the sidecar stamp after each step that may touch it
        for s, ob in zip(c["steps"], o):
            if s["a"] == "write":
                continue
            sck = s["pred"]["sck"] if "pred" in s else s["sck"]
            real = ob.get("sidecar")
            stats["sidecar_state"]["present" if real else "absent"] += 1
            if (real is None) != (len(sck) == 0):
                stats["drift"][f"sidecar presence differs from the model after {s['a']} (mode {c['mode']})"] += 1
            elif real is not None:
                m = re.match(r"^v2:(\d+):(\d+)$", real["stamp"])
                if not m or int(m.group(2)) != BASE_SEC + sck[1]:
                    stats["drift"]["sidecar stamp text differs from the model"] += 1


def new_stats():
    return {k: collections.Counter() for k in ("modes", "variants", "actions", "writes", "verdicts", "observed", "known_by_kind",
                                               "drift", "sidecar_state", "stale_dict_cols_queries")}


def vacuity(stats, need_x=True):
    miss = []
    for m in (0, 1, 2):
        if stats["modes"][m] == 0:
            miss.append(f"mode {m}")
    for a in ("write", "query", "build") + (("xquery",) if need_x else ()):
        if stats["actions"][a] == 0:
            miss.append(f"action {a}")
    for lc in (0, 1):
        for tc in (0, 1, 2, 3, 4):
            if stats["writes"][f"lc{lc}/tc{tc}"] == 0:
                miss.append(f"rewrite class lc{lc}/tc{tc}")
    if stats["verdicts"]["ok"] == 0:
        miss.append("no query answered from current content")
    if stats["sidecar_state"]["present"] == 0:
        miss.append("no sidecar ever present")
    if miss:
        raise vlib.ToolError(f"vacuity: never exercised: {miss}")


# --------------------------------------------------------------------------------------------
# TLC runs

CFG_TEMPLATE = """CONSTANTS Paths = {paths}
          NVersions = 3
          Modes = {{0, 1, 2}}
          MaxActions = {n}
          KeyModel = {km}
          VStep = {vstep}
          TimeChoices = {{0, 1, 2, 3, 4}}
          WithX = TRUE
          EmitOn = {emit}
          Sim = FALSE
INIT Init
NEXT NextAll
{invs}
CHECK_DEADLOCK FALSE
"""


def write_cfg(ctx, name, **kw):
    path = os.path.join(ctx.work, name)
    kw["invs"] = "\n".join("INVARIANT " + i for i in kw["invs"])
    kw["emit"] = "TRUE" if kw.get("emit") else "FALSE"
    with open(path, "w") as f:
        f.write(CFG_TEMPLATE.format(**kw))
    return path


def cex_len(res):
    return len(re.findall(r"^State \d+:", res.out, re.M))


def tlc_jobs(ctx, quick):
    """all TLC runs of the tier, started together (they are independent); returns results by name"""
    from concurrent.futures import ThreadPoolExecutor
    jobs = {
        "ideal": lambda: run_tlc("CacheCoherence", "CacheCoherence_quick.cfg" if quick else "CacheCoherence_thorough.cfg", workers=4 if quick else 8,
                                 timeout=3000, coverage=not quick, tag="C19-ideal"),
        "FooterFresh": lambda: run_tlc("CacheCoherence", "CacheCoherence_asbuilt_footer.cfg", workers=1, timeout=1500, tag="C19-fo"),
        "SidecarFresh": lambda: run_tlc("CacheCoherence", "CacheCoherence_asbuilt_sidecar.cfg", workers=1, timeout=1500, tag="C19-sc"),
        "gen": lambda: run_tlc("CacheCoherence", "CacheCoherence_gen_quick.cfg" if quick else "CacheCoherence_gen_thorough.cfg", workers=4 if quick else 8,
                               timeout=3000, tag="C19-gen"),
        "mid": lambda: run_tlc("CacheCoherence", "CacheCoherence_gen_mid.cfg", workers=4, timeout=3000, tag="C19-mid"),
        "sim": lambda: run_tlc("CacheCoherence", "CacheCoherence_sim.cfg", workers=1, timeout=3000, simulate=100 if quick else 3000, depth=12,
                               seed=ctx.seed, tag="C19-sim"),
    }
    if not quick:
        jobs["deep"] = lambda: run_tlc("CacheCoherence", "CacheCoherence_thorough_deep.cfg", workers=8, timeout=3000, tag="C19-deep")
        for km in (2, 3, 4, 5):
            cfg = write_cfg(ctx, f"mut{km}.cfg", paths="{1}", n=5, km=km, vstep="{1, 2}", invs=["Fresh"])
            jobs[f"mut{km}"] = (lambda cfg=cfg, km=km: run_tlc("CacheCoherence", cfg, workers=1, timeout=1500, tag=f"C19-mut{km}"))
    with ThreadPoolExecutor(max_workers=len(jobs)) as ex:
        futs = {k: ex.submit(f) for k, f in jobs.items()}
        return {k: f.result() for k, f in futs.items()}


def model_results(ctx, res, quick):
    r = res["ideal"]
    tlc_must_pass(r, "CacheCoherence ideal keys")
    ctx.tlc_stats(r, "CacheCoherence, ideal keys (len, mtime_ns, change generation): Fresh/DictFresh/ModeRespected hold in every reachable state")
    if not quick:
        zero = [a for a in ("Write", "Query", "XQuery", "Build") if r.coverage.get(a, 0) == 0]
        if zero:
            raise vlib.ToolError(f"TLC coverage: actions never taken: {zero}")
        tlc_must_pass(res["deep"], "CacheCoherence ideal keys, deep")
        ctx.tlc_stats(res["deep"], "CacheCoherence, ideal keys, one path, 7 steps")
    # as-built keys: both refutations must be found
    model = {}
    for inv in ("FooterFresh", "SidecarFresh"):
        r = res[inv]
        if r.error:
            tlc_must_pass(r, inv)
        ctx.tlc_stats(r, f"CacheCoherence, as-built keys: shortest counterexample to {inv}")
        if r.violated != inv:
            raise vlib.ToolError(f"the as-built key model no longer refutes {inv} (spec and code keys diverged?)")
        model[inv] = cex_len(r) - 1
    ctx.set("asbuilt_counterexample_steps", model)
    if not quick:
        for km in (2, 3, 4, 5):
            r = res[f"mut{km}"]
            if r.violated != "Fresh":
                raise vlib.ToolError(f"key model {km} is not refuted by Fresh")
            ctx.tlc_stats(r, f"CacheCoherence, mutant key model {km}: refuted")
    r = res["gen"]
    tlc_must_pass(r, "CacheCoherence generator")
    ctx.tlc_stats(r, "CacheCoherence, as-built keys: every history of 3 (quick) / 5 (thorough) steps emitted with the predicted stale flags per query")
    mid = res["mid"]
    tlc_must_pass(mid, "CacheCoherence generator, 4 steps")
    ctx.tlc_stats(mid, "CacheCoherence, as-built keys: every history of 4 steps emitted with the predicted stale flags per query")
    sim = res["sim"]
    if sim.error or sim.violated:
        tlc_must_pass(sim, "CacheCoherence/simulate")
    m = re.search(r"The number of states generated: (\d+)", sim.out)
    sim.generated = int(m.group(1)) if m else 0
    sim.distinct = len({hist_key(c) for c in sim.cases})
    ctx.tlc_stats(sim, "CacheCoherence -simulate: random histories of 8 steps over 2 paths (as-built keys), one CASE per walk")
    return r.cases, mid.cases, sim.cases


# --------------------------------------------------------------------------------------------

def run(ctx):
    quick = ctx.tier == "quick"
    gen, midc, simc = model_results(ctx, tlc_jobs(ctx, quick), quick)
    stats = new_stats()
    ex = prepare(gen)
    # the 4-step family: all of it in thorough, a seeded quarter in quick
    mids = [c for c in prepare(midc) if not quick or (int(c["key"], 16) + ctx.seed) % 8 == 0]
    if not quick:
        # thorough: all 4-step histories; of the 5-step family (124k) a seeded eighth
        ex = [c for c in ex if (int(c["key"], 16) + ctx.seed) % 8 == 0]
    ex = ex + mids
    seen = {c["key"] for c in ex}
    sm = [c for c in prepare(simc) if c["key"] not in seen]
    if len(ex) < (900 if quick else 15000) or len(sm) < 40:
        raise vlib.ToolError(f"too few histories emitted ({len(ex)} exhaustive, {len(sm)} simulated)")
    ctx.set("cases_4_step_family", len(mids))
    # all four concretisation variants (rename / in place x fresh / long-lived context) for the histories with a finding shape
    # or, in thorough, for everything of the exhaustive family
    allc = ex + sm
    # the histories with a finding shape (and a sample of the others) also run under the opposite concretisation
    # (rename <-> in place, fresh <-> long-lived context); thorough: all three other variants for every history
    extra = []
    for c in ex:
        flagged = any(s["a"] in ("query", "xquery") and (s["pred"]["fs"] or s["pred"]["ss"]) for s in c["steps"])
        var0 = c["repl"] + 2 * c["shared_ctx"]
        if quick:
            if flagged and int(c["key"], 16) % 3 != 0 or not flagged and int(c["key"], 16) % 8 != 0:
                continue
            others = [3 - var0]
        else:
            h = int(c["key"], 16)
            if flagged:
                others = [v for v in range(4) if v != var0] if h % 3 == 0 else [3 - var0]
            elif h % 4 == 0:
                others = [3 - var0]
            else:
                continue
        for var in others:
            d = dict(c)
            d["repl"], d["shared_ctx"] = var % 2, var // 2
            extra.append(d)
    obs = run_harness(ctx, allc + extra, "cases")
    account(ctx, allc + extra, obs, stats)
    vacuity(stats)
    shutil.rmtree(os.path.join(ctx.work, "files"), ignore_errors=True)

    nt = {c["key"] for c in allc if nontrivial(c)}
    ctx.set("cases_exhaustive_family", len(ex))
    ctx.set("cases_simulated_new", len(sm))
    ctx.set("cases_variant_reruns", len(extra))
    ctx.set("distinct_nontrivial", len(nt))
    ctx.set("traces_validated_against_impl", len(allc) + len(extra))
    ctx.set("exhaustive", True)
    ctx.set("stats", {k: dict(v) for k, v in stats.items()})
    for c in (allc[7], allc[len(ex) // 2], allc[len(ex) - 1], allc[-1]):
        ctx.sample({"history": shape(c, len(c["steps"]) - 1), "repl": c["repl"], "shared_ctx": c["shared_ctx"],
                    "predicted_stale_last_query": c["steps"][-1]["pred"]["stale"]})
    ctx.set("rule", "A case is one history of CacheCoherence.tla: a QE_IPC_CACHE mode (0 / 1 / unset) and a sequence of steps over 1-2 paths - "
            "Write (other content, same or other byte length, mtime later / same second later nanosecond / preserved / an earlier second / same second earlier nanosecond), Query (4 statements: morsel "
            "aggregate, streaming scan, eager filtered scan, dictionary-group scan), XQuery (same in a fresh process), Build (another process builds "
            "the sidecar) - ending in a query. The exhaustive family is every history of exactly 3 steps (quick; plus a seeded eighth of the 4-step ones) / "
            "4 steps (thorough; plus a seeded eighth of the 5-step ones) on one path; simulation adds 8-step histories over two paths. Each history runs on real files in one engine process per mode; content versions differ in rows, "
            "row-group layout and dictionary encoding and have byte-identical lengths per length class. Non-trivial = distinct history in which a path is "
            "replaced after a query/build touched it and is queried again.")
    ctx.assumptions += [
        "the harness writer (arrow/parquet crates), utimensat and the file system keep the requested (length, mtime_ns) tuple (read back and asserted on every write)",
        "a query in the model is the fixed sequence of four statements, morsel aggregate first (it always consults the footer cache)",
        "known findings are recognised by history shape only: the as-built key model flags the query (stale footer entry hit / stale sidecar accepted by its stamp / sidecar built through a stale footer entry); every other non-current answer is a violation",
        "ideal-key proof assumes a content change changes length or ctime/inode generation (true for rename and for in-place writes on Linux)",
    ]


def replay(ctx, obj):
    c = obj["case"]["case"]
    obs = run_harness(ctx, [c], "replay", keep=True)
    stats = new_stats()
    account(ctx, [c], obs, stats)
    ctx.set("distinct_nontrivial", 1 if nontrivial(c) else 0)
    ctx.sample({"history": shape(c, len(c["steps"]) - 1), "obs": obs[0]})
    ctx.set("stats", {k: dict(v) for k, v in stats.items()})


# --------------------------------------------------------------------------------------------
# selftest

def selftest(ctx):
    ok = True

    def expect(name, cond, detail=""):
        nonlocal ok
        print(f"selftest {name}: {'detected' if cond else 'NOT DETECTED'} {detail}")
        ok = ok and cond

    res = run_tlc("CacheCoherence", "CacheCoherence_gen_mid.cfg", workers=8, timeout=1500)
    tlc_must_pass(res, "generator")
    cases = prepare(res.cases)
    by_key = {c["key"]: c for c in cases}

    def nviol(cs, obs):
        c2 = vlib.Ctx(ctx.pid, ctx.tier, ctx.seed, LEVEL)
        c2.work = ctx.work
        account(c2, cs, obs, new_stats())
        return len(c2.violations), c2

    # baseline on a sample of real runs
    sample = [c for c in cases if int(c["key"], 16) % 12 == 0]
    obs = run_harness(ctx, sample, "selftest")
    n0, _ = nviol(sample, obs)
    expect("baseline (unchanged tree: no violation)", n0 == 0, f"({len(sample)} histories)")

    # 1. corrupt an observed answer of an unflagged query: one row value off by one
    done = False
    for c, o in zip(sample, obs):
        for i, s in enumerate(c["steps"]):
            if s["a"] == "query" and s["pred"]["fs"] == 0 and s["pred"]["ss"] == 0 and not done:
                o2 = copy.deepcopy(o)
                o2[i]["ans"]["scan"]["rows"][0][0] += 1
                n, _ = nviol([c], [o2])
                expect("observed row value corrupted", n == 1)
                o3 = copy.deepcopy(o)
                o3[i]["ans"]["agg"] = {"err": "injected"}
                n, _ = nviol([c], [o3])
                expect("observed answer replaced by an error", n == 1)
                done = True
    # 2. corrupt the expectation: the model's idea of the current version
    for c, o in zip(sample, obs):
        qs = [i for i, s in enumerate(c["steps"]) if s["a"] == "query" and s["pred"]["fs"] == 0 and s["pred"]["ss"] == 0]
        if qs:
            c2 = copy.deepcopy(c)
            c2["steps"][qs[0]]["pred"]["v"] = c2["steps"][qs[0]]["pred"]["v"] % 3 + 1
            n, _ = nviol([c2], [o])
            expect("expected current version corrupted", n >= 1)
            break
    # 3. a finding shape without its known_findings entry is a violation
    for c, o in zip(sample, obs):
        if any(v.startswith("known:") for (_, _, v, _) in judge_history(c, o)):
            c3 = vlib.Ctx(ctx.pid, ctx.tier, ctx.seed, LEVEL)
            c3.work = ctx.work
            c3.findings = []
            account(c3, [c], [o], new_stats())
            expect("known finding not listed -> violation", len(c3.violations) >= 1)
            break
    # 4. serve the OLD content for real: the harness is told to skip a write (file keeps the old content)
    for c in sample:
        ws = [i for i, s in enumerate(c["steps"]) if s["a"] == "write" and s["tc"] == 0]
        qs = [i for i, s in enumerate(c["steps"]) if s["a"] in ("query", "xquery")]
        if ws and qs and qs[-1] > ws[-1] and c["mode"] == 0:
            c4 = copy.deepcopy(c)
            lost = c4["steps"][ws[-1]]
            prev = [s for s in c4["steps"][:ws[-1]] if s["a"] == "write" and s["p"] == lost["p"]]
            lost["v"] = prev[-1]["v"] if prev else 1      # the file on disk keeps the previous content ...
            o4 = run_harness(ctx, [c4], "selftest-lost")
            n, _ = nviol([c], o4)                          # ... while the judge expects the new one
            expect("real run serving the previous content (lost write)", n >= 1)
            break
    # 5. cache designs with weaker keys, as TLC predicts them, taken as the engine's behaviour and judged against the as-built shapes
    for km, name in ((2, "footer cache keyed by path only"), (3, "footer cache keyed by mtime seconds"),
                     (4, "sidecar stamp without the length"), (5, "sidecar stamp without the mtime")):
        cfg = write_cfg(ctx, f"selftest-km{km}.cfg", paths="{1}", n=4, km=km, vstep="{1}", emit=True, invs=["TypeOk", "Emit"])
        r = run_tlc("CacheCoherence", cfg, workers=8, timeout=1500)
        tlc_must_pass(r, f"key model {km}")
        nbad = 0
        for mc in prepare(r.cases):
            base = by_key.get(mc["key"])
            if base is None:
                continue
            fake = []
            for s in mc["steps"]:
                if s["a"] in ("query", "xquery"):
                    cur = s["pred"]["v"]
                    fake.append({"a": s["a"], "sidecar": None,
                                 "ans": {kind: {"rows": EXPECTED[(cur % 3 + 1 if s["pred"]["stale"][k] else cur, kind)]} for k, kind in enumerate(KINDS)}})
                else:
                    fake.append({"a": s["a"], "sidecar": None, "len": 0})
            n, _ = nviol([base], [fake])
            nbad += 1 if n else 0
        expect(f"seeded cache design '{name}'", nbad > 0, f"(violations on {nbad} histories)")
    shutil.rmtree(os.path.join(ctx.work, "files"), ignore_errors=True)
    return 0 if ok else 1
