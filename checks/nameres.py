"""X01 "NameRes" — sub-model of C01: SQL name resolution / scoping (spec/NameRes.tla, spec/NameResTrace.tla).

SqlSem.tla represents column references as already-resolved (depth, index) pairs and the statement generator only
emits unambiguous names, so WHICH column a name denotes (src/planner/binder.rs, src/planner/schema.rs and the
execution-time name lookups) is outside the C01 loop.  This sub-model closes that gap.

(M)  NameRes.tla gives, for an abstract scope configuration (catalog, WITH, outer block, optional sub-query block,
     clause, reference) the set of ALLOWED outcomes {origin column, ...} and/or ERR, as a declarative rule and an
     operational walk, and TLC checks the laws (function; qualify; alias hides table name; alias renaming; add a
     column; case folding; star expansion; ORDER BY alias/ordinal; every allowed answer is permitted by a rule) on
     every small configuration it enumerates, emitting each as a CASE.
(R)  every CASE is materialised as concrete SQL over tiny in-memory tables in which every base column holds a
     distinct recognisable constant (value // 10 = origin = table*10 + column position), run on the real engine
     through `qev sqlrun`, and the observed binding is compared with the allowed set.
(V)  a few hundred / thousand RANDOM configurations (other catalogs, wider FROM lists) are run the same way, the
     observed (scope, reference, outcome) tuples are written as ND-JSON and NameResTrace.tla accepts/rejects them.

Verdicts (parent property C01: "... Otherwise the statement fails with an error. A wrong answer is never returned"):
  engine error where the model resolves          -> fidelity note  nameres_refused   (errors are permitted outcomes)
  engine ANSWER bound to a column outside the allowed set, or an answer where every allowed outcome is an error
                                                 -> contract violation (wrong answer) unless the scope shape is a
                                                    listed open finding C01/nameres-* (KNOWN-FINDING).

Observation per clause: select list -> the returned value; WHERE / ON / HAVING (also inside sub-queries at 4 positions) -> one
statement per probe constant `ref = K` (the K that matches names the bound column; sub-queries in WHERE are run twice, once
projecting a literal and once a real column of the outer block); ORDER BY / GROUP BY -> a 3-row table whose columns have distinct
permutations / partitions, the answer is checked for consistency with each candidate key; `*` / `q.*` -> the row of constants.

Open findings on the unchanged engine (ids C01/nameres-*, "also": ["X01"]; signatures = scope shape AND observed misbehaviour, see
known_class): ambiguous-name-first-match, qualifier-ignored-on-miss, duplicate-exposed-name-accepted, qualified-star-unknown-qualifier,
duplicate-output-names-conflated, unknown-name-in-subquery-is-null, case-sensitive-identifiers, subquery-over-cte-binds-outer-column,
in-subquery-correlated-qualifier-ignored, unqualified-outer-reference-column-pruned, on-clause-sees-later-from-item,
derived-table-body-columns-leak, derived-table-reference-binds-other-item.  Any other wrong binding is a VIOLATION.

    run_sub(ctx) / replay_sub(ctx, obj) / selftest_sub(ctx)      (replay objects carry case["kind"] == "nameres")
    run_mutants(ctx)  seeded spec mutants (first match wins, outer scope wins, case-sensitive, alias does not hide, ORDER BY prefers
                      the input column) must each violate a law
"""
import concurrent.futures as cf
import json
import os
import random
import re
import sys
import time

if __name__ == "__main__":
    sys.path.insert(0, os.path.join(os.path.dirname(os.path.dirname(os.path.abspath(__file__))), "lib"))
import vlib

ERR = -1
COL = {1: "a", 2: "b", 3: "c", 4: "d", 5: "z"}
REL = {1: "t1", 2: "t2", 3: "t3", 4: "x", 5: "y", 6: "w"}
MARK = 7
NPROC = {"quick": 6, "thorough": 10}
# TLC reports the FIRST violated invariant of a state: the metamorphic laws come first, the agreement of the operational walk with
# the declarative rule (InvFunction, which nearly every mutant breaks) last, so that a mutant run shows the independent kills
LAWS = ["InvQualify", "InvExposed", "InvRename", "InvAddColumn", "InvCase", "InvStar", "InvOrder", "InvPermitted", "InvFunction"]
MUTANTS = ["firstmatch", "outerwins", "casesens", "aliasnohide", "orderinput"]

# rank patterns of the multi-row table (3 rows): ORDER BY wants distinct permutations, GROUP BY distinct partitions
ORDER_RANKS = {1: (1, 2, 3), 2: (2, 3, 1), 3: (3, 1, 2), 4: (1, 3, 2)}
GROUP_RANKS = {1: (1, 2, 3), 2: (1, 1, 2), 3: (1, 1, 1), 4: (1, 2, 2)}


def nm(i):
    return i % 100


def ident(table, i):
    s = table[nm(i)]
    return s.upper() if i >= 100 else s


def col(i):
    return ident(COL, i)


def rel(i):
    return ident(REL, i)


# ------------------------------------------------------------------ rendering
def r_sel(s):
    if s["k"] == 1:
        return "*"
    if s["k"] == 2:
        return f"{rel(s['q'])}.*"
    t = (f"{rel(s['q'])}." if s["q"] else "") + col(s["n"])
    return t + (f" AS {col(s['as'])}" if s["as"] else "")


def r_body(b):
    return "SELECT " + ", ".join(r_sel(s) for s in b["sel"]) + " FROM " + ", ".join(r_item(i) for i in b["from"])


def r_item(it):
    if it["d"]:
        return f"({r_body(it['d'][0])}) {rel(it['al'])}"
    return rel(it["t"]) + (f" {rel(it['al'])}" if it["al"] else "")


def r_ref(r):
    if r["k"] == 1:
        return str(r["n"])
    if r["k"] == 2:
        return "*"
    if r["k"] == 3:
        return f"{rel(r['q'])}.*"
    t = (f"{rel(r['q'])}." if r["q"] else "") + col(r["n"])
    return f"{t} + 0" if r.get("x") else t


def r_from(c, cond=None):
    items = [r_item(i) for i in c["ob"]["from"]]
    if c["ctx"] != 3 or c["ib"]:
        return ", ".join(items)
    j = c["onj"]
    out = items[0]
    for k in range(2, len(items) + 1):
        out += (f" JOIN {items[k - 1]} ON {cond}" if k == j else f" CROSS JOIN {items[k - 1]}")
    return out


def r_with(c):
    return "".join(f"WITH {rel(w['nm'])} AS ({r_body(w['body'])}) " for w in c["cte"])


def const(o, rank=1):
    return o * 10 + rank


def tables_of(c, mode):
    """The three base tables; `mode` none|order|group makes the table of the first FROM item 3 rows deep."""
    multi = None
    if mode != "none":
        it = c["ob"]["from"][0]
        multi = nm(it["d"][0]["from"][0]["t"]) if it["d"] else nm(it["t"])
    ranks = ORDER_RANKS if mode == "order" else GROUP_RANKS
    out = []
    for t, cols in enumerate(c["cat"], start=1):
        n = 3 if t == multi else 1
        rows = [[const(t * 10 + p, ranks[p][i] if t == multi else 1) for p in range(1, len(cols) + 1)] for i in range(n)]
        out.append({"name": REL[t], "cols": [[COL[x], "int"] for x in cols], "rows": rows})
    return out, multi


def all_origins(c):
    return [t * 10 + p for t, cols in enumerate(c["cat"], start=1) for p in range(1, len(cols) + 1)]


def exposed_cols(c):
    """`x.n` for every column of every outer FROM item (used for HAVING's GROUP BY list); base items only."""
    out = []
    for it in c["ob"]["from"]:
        x = it["al"] or it["t"]
        for n in c["cat"][nm(it["t"]) - 1]:
            out.append(f"{rel(x)}.{col(n)}")
    return out


def plan(case, wide=False):
    """-> list of statements {sql, arity, k (probe constant or None)}, observation kind, data mode."""
    c = case["c"]
    r = c["ref"]
    ref = r_ref(r)
    w = r_with(c)
    fam, ctx = c["fam"], c["ctx"]
    cand = set(case.get("cand") or []) | (set(all_origins(c)) if wide or "cand" not in case else set())
    if r["k"] == 0 and (c["cte"] or any(i["d"] for i in c["ob"]["from"])):
        cand |= set(shape(case)["body_named"])        # columns of that name hidden inside derived-table / CTE bodies
    cand = sorted(cand)
    if not cand:
        cand = [99]
    st = []
    if r["k"] >= 2:
        n = max(1, len(case.get("star") or [1]))
        return [{"sql": f"{w}SELECT {ref} FROM {r_from(c)}", "arity": n, "k": None}], "star", "none"
    if ctx == 6:
        sel = ", ".join(r_sel(s) for s in c["ob"]["sel"])
        return [{"sql": f"SELECT {sel} FROM {r_from(c)} ORDER BY {ref}", "arity": max(1, len(case.get("out") or [1])), "k": None}], "order", "order"
    if ctx == 4:
        sel = r_sel(c["ob"]["sel"][0])
        return [{"sql": f"SELECT {sel}, COUNT(*) FROM {r_from(c)} GROUP BY {ref}", "arity": 2, "k": None}], "group", "group"
    if c["ib"]:
        ifrom = ", ".join(r_item(i) for i in c["ib"][0]["from"])
        ofrom = r_from(c)
        pos = c["pos"]
        # variant B projects a real column of the outer block instead of a literal (the outer scan is then column-pruned)
        o1 = c["ob"]["from"][0]
        marks = [("A", str(MARK))]
        if not o1["d"] and not c["cte"] and fam != "case":
            marks.append(("B", f"{rel(o1['al'] or o1['t'])}.{col(c['cat'][nm(o1['t']) - 1][0])}"))
        if ctx == 1:
            if pos == 1:
                return [{"sql": f"{w}SELECT (SELECT {ref} FROM {ifrom}) FROM {ofrom}", "arity": 1, "k": None}], "value", "none"
            for k in cand:
                q = (f"({'SELECT ' + ref + ' FROM ' + ifrom}) = {const(k)}" if pos == 3 else f"{const(k)} IN (SELECT {ref} FROM {ifrom})")
                for var, mk in marks:
                    st.append({"sql": f"{w}SELECT {mk} FROM {ofrom} WHERE {q}", "arity": 1, "k": k, "var": var})
            return st, "hit", "none"
        for k in cand:
            p = f"{ref} = {const(k)}"
            for var, mk in (marks if pos > 1 else marks[:1]):
                if pos == 1:
                    sql = f"SELECT (SELECT {MARK} FROM {ifrom} WHERE {p}) FROM {ofrom}"
                elif pos == 2:
                    sql = f"SELECT {mk} FROM {ofrom} WHERE EXISTS (SELECT 1 FROM {ifrom} WHERE {p})"
                elif pos == 3:
                    sql = f"SELECT {mk} FROM {ofrom} WHERE (SELECT 5 FROM {ifrom} WHERE {p}) = 5"
                else:
                    sql = f"SELECT {mk} FROM {ofrom} WHERE 5 IN (SELECT 5 FROM {ifrom} WHERE {p})"
                st.append({"sql": w + sql, "arity": 1, "k": k, "var": var})
        return st, "hit", "none"
    if ctx == 1:
        return [{"sql": f"{w}SELECT {ref} FROM {r_from(c)}", "arity": 1, "k": None}], "value", "none"
    sel = r_sel(c["ob"]["sel"][0]) if c["ob"]["sel"] else str(MARK)
    for k in cand:
        p = f"{ref} = {const(k)}"
        if ctx == 2:
            sql = f"{w}SELECT {sel} FROM {r_from(c)} WHERE {p}"
            ar = 1
        elif ctx == 3:
            sql = f"SELECT {MARK} FROM {r_from(c, p)}"
            ar = 1
        else:
            sql = f"SELECT {sel}, COUNT(*) FROM {r_from(c)} GROUP BY {', '.join(exposed_cols(c))} HAVING {p}"
            ar = 2
        st.append({"sql": sql, "arity": ar, "k": k})
    return st, "hit", "none"


# ------------------------------------------------------------------ running statements on the real engine
def _wd(ctx):
    """scratch directory of the sub-model inside the (parent's) work directory"""
    d = os.path.join(ctx.work, "nameres")
    os.makedirs(d, exist_ok=True)
    return d


def run_statements(ctx, stmts, tag, nproc=4):
    """stmts: [{sql, arity, tables}] -> [{k: rows|err|panic|hang, rows|msg, arity}] (two passes: the second fixes the arity)."""
    def go(batch, name):
        outs = [None] * len(batch)
        if not batch:
            return outs
        n = max(1, min(nproc, len(batch) // 40 + 1))
        chunks = [list(range(i, len(batch), n)) for i in range(n)]
        cfgp = os.path.join(_wd(ctx), f"{name}.cfg.json")
        with open(cfgp, "w") as f:
            json.dump([{"name": "mem", "layout": "mem", "batches": 1}], f)

        def one(ci):
            idx = chunks[ci]
            inp = os.path.join(_wd(ctx), f"{name}.{ci}.in.ndjson")
            outp = os.path.join(_wd(ctx), f"{name}.{ci}.out.ndjson")
            vlib.write_ndjson(inp, [{"id": i, "tables": batch[i]["tables"], "sql": batch[i]["sql"], "out_types": ["int"] * batch[i]["arity"]} for i in idx])
            vlib.qev(["sqlrun", inp, cfgp, outp, _wd(ctx)], timeout=3000)
            res = vlib.read_ndjson(outp)
            if len(res) != len(idx):
                raise vlib.ToolError(f"sqlrun answered {len(res)} of {len(idx)} statements")
            return [(r["id"], r["outs"][0], r["meta"][0]) for r in res]
        with cf.ThreadPoolExecutor(max_workers=n) as ex:
            for part in ex.map(one, range(n)):
                for i, o, m in part:
                    o = dict(o)
                    o["schema"] = [x[0] for x in (m.get("schema") or [])]
                    outs[i] = o
        return outs
    outs = go(stmts, tag)
    redo = []
    for i, o in enumerate(outs):
        m = re.match(r"arity (\d+) != expected", o.get("note", "")) if o["k"] == "rows" else None
        if m:
            n = int(m.group(1))
            if n == 0:
                outs[i] = {"k": "rows", "rows": [], "zero_columns": True, "schema": []}
            else:
                redo.append((i, n))
    if redo:
        again = go([dict(stmts[i], arity=n) for i, n in redo], tag + "-r")
        for (i, n), o in zip(redo, again):
            outs[i] = o
    return outs


# ------------------------------------------------------------------ observation + verdict
def _answered(o):
    return o["k"] == "rows"


def _multi_row_index(cells, multi, ranks):
    """row of the 3-row table an output row stems from (None if no cell comes from that table)."""
    for v in cells:
        if v is None or v < 0:
            continue
        o, rk = v // 10, v % 10
        if o // 10 == multi and o % 10 in ranks:
            rs = ranks[o % 10]
            idx = [i for i, x in enumerate(rs) if x == rk]
            if len(idx) == 1:
                return idx[0]
    return None


def observe(case, kind, stmts, outs, multi):
    """-> obs {e: 1 (every statement failed) | 0, os: [origins the answer is consistent with], star: [...], sel: [...], raw}"""
    c = case["c"]
    obs = {"e": 0, "os": [], "star": [], "sel": [], "why": ""}
    if all(not _answered(o) for o in outs):
        obs["e"] = 1
        obs["why"] = outs[0].get("msg", outs[0]["k"])[:160]
        if any(o["k"] in ("panic", "hang") for o in outs):
            obs["panic"] = [o["k"] for o in outs if o["k"] in ("panic", "hang")][0]
        return obs
    if kind == "value":
        rows = outs[0]["rows"]
        if len(rows) == 1 and len(rows[0]) == 1 and rows[0][0] >= 0 and rows[0][0] % 10 == 1:
            obs["os"] = [rows[0][0] // 10]
        obs["why"] = f"rows={rows[:3]}"
        return obs
    if kind == "star":
        o = outs[0]
        rows = o["rows"]
        if o.get("zero_columns"):
            obs["star"] = []
            obs["why"] = "answered with zero columns"
        elif len(rows) == 1:
            obs["star"] = [v // 10 if v >= 0 and v % 10 == 1 else -9 for v in rows[0]]
            obs["why"] = f"row={rows[0]} schema={o.get('schema')}"
        else:
            obs["star"] = [-9]
            obs["why"] = f"{len(rows)} rows"
        return obs
    if kind == "hit":
        hits = []
        hits_b = []
        for s, o in zip(stmts, outs):
            if not _answered(o):
                continue
            rows = o["rows"]
            hit = len(rows) >= 1 and rows[0][0] != vlib.NULL
            if s.get("var") == "B":
                obs["b_answered"] = True
                if hit:
                    hits_b.append(s["k"])
                continue
            obs["a_answered"] = True
            if hit:
                hits.append(s["k"])
                if c["ob"]["sel"] and not c["ib"]:
                    obs["sel"] = [rows[0][0] // 10]
        obs["os"] = hits
        obs["os_b"] = hits_b
        if not obs.get("a_answered"):
            obs["os"] = hits_b    # only the column-projecting variant answered: judge it alone
        obs["partial_errors"] = sum(1 for o in outs if not _answered(o))
        obs["why"] = f"probes={[s['k'] for s in stmts]} hits={hits}"
        return obs
    rows = outs[0]["rows"]
    ranks = ORDER_RANKS if kind == "order" else GROUP_RANKS
    vis = all_origins(c)

    def key(o, ri):     # value rank of origin o on joined row ri
        return ranks[o % 10][ri] if o // 10 == multi else 1
    if kind == "order":
        if rows:
            obs["sel"] = [v // 10 if v >= 0 else -9 for v in rows[0]]
        ris = [_multi_row_index(r, multi, ranks) for r in rows]
        if len(rows) != 3 or any(x is None for x in ris):
            obs["os"] = vis if len(rows) == 3 else []
            obs["why"] = f"rows={rows}"
            return obs
        if sorted(ris) != [0, 1, 2]:
            obs["why"] = f"rows={rows} (not a permutation of the input)"
            return obs
        obs["os"] = [o for o in vis if all(key(o, ris[i]) <= key(o, ris[i + 1]) for i in range(2))]
        obs["why"] = f"rows={rows}"
        return obs
    # group: rows (sel1 value, count)
    import itertools
    if rows:
        obs["sel"] = [rows[0][0] // 10 if rows[0][0] >= 0 else -9]
    for o in vis:
        groups = {}
        for ri in range(3):
            groups.setdefault(key(o, ri), []).append(ri)
        gl = list(groups.values())
        if len(gl) != len(rows):
            continue
        ok = False
        for perm in itertools.permutations(range(len(rows))):
            good = True
            for gi, pi in enumerate(perm):
                v, cnt = rows[pi][0], rows[pi][1]
                so = v // 10
                vals = {const(so, key(so, ri)) for ri in gl[gi]} if v >= 0 else set()
                if cnt != len(gl[gi]) or v not in vals:
                    good = False
                    break
            if good:
                ok = True
                break
        if ok:
            obs["os"].append(o)
    obs["why"] = f"rows={rows}"
    return obs


def verdict(case, kind, obs):
    """-> ("ok"|"refused"|"bad", why)"""
    c = case["c"]
    if obs["e"] == 1:
        if obs.get("panic"):
            return "bad", f"engine {obs['panic']} instead of an answer or an error"
        if kind == "star":
            return ("refused" if case["star"] != [ERR] else "ok"), obs["why"]
        return ("refused" if any(o != ERR for o in case["al"]) else "ok"), obs["why"]
    if kind == "star":
        if obs["star"] == case["star"]:
            return "ok", ""
        if case["star"] == [ERR]:
            return "bad", f"`{r_ref(c['ref'])}` must fail (no single FROM item exposes the qualifier / invalid FROM) but the engine answered: {obs['why']}"
        return "bad", f"`{r_ref(c['ref'])}` must expand to origins {case['star']} but the answer shows {obs['star']}: {obs['why']}"
    allowed = [o for o in case["al"] if o != ERR]
    sel_expect = case.get("out") or []
    if obs["sel"] and sel_expect and kind in ("order", "group", "hit"):
        exp = sel_expect[:len(obs["sel"])]
        if ERR not in exp and obs["sel"] != exp and obs["sel"][0] != -9:
            return "bad", f"select list bound to origins {obs['sel']} but the select items denote {exp}: {obs['why']}"
    if not allowed:
        return "bad", f"every allowed outcome is an error, but the engine answered ({obs['why']})"
    if any(o in allowed for o in obs["os"]):
        if obs.get("b_answered") and obs.get("a_answered") and not any(o in allowed for o in obs["os_b"]):
            return "bad", (f"with a column of the outer block projected instead of a literal the same predicate binds {obs['os_b']} "
                           f"(literal projection: {obs['os']}), allowed {allowed}")
        return "ok", ""
    return "bad", f"answer is consistent with origins {obs['os']} but only {allowed} are allowed ({obs['why']})"


# ------------------------------------------------------------------ shape features (for the signatures of open findings)
def _levels(c, full=True):
    """Mini replica of the scope construction, ONLY used to describe the shape of a failing case."""
    def base(it):
        t = nm(it["t"])
        return [(n, t * 10 + p) for p, n in enumerate(c["cat"][t - 1], start=1)]

    def body_out(b):
        lv = [(it["al"] or it["t"], base(it)) for it in b["from"]]
        out = []
        for s in b["sel"]:
            if s["k"] == 1:
                out += [x for _, cols in lv for x in cols]
            elif s["k"] == 2:
                out += [x for xn, cols in lv if nm(xn) == nm(s["q"]) for x in cols]
            else:
                m = [(n, o) for xn, cols in lv for n, o in cols if nm(n) == nm(s["n"]) and (not s["q"] or nm(xn) == nm(s["q"]))]
                out.append((s["as"] or s["n"], m[0][1] if len(m) == 1 else ERR))
        return out

    def level(from_):
        lv = []
        for it in from_:
            if it["d"]:
                cols = body_out(it["d"][0])
            else:
                w = [x for x in c["cte"] if nm(x["nm"]) == nm(it["t"])]
                cols = body_out(w[0]["body"]) if w else base(it)
            lv.append({"x": it["al"] or it["t"], "cols": cols, "derived": bool(it["d"]) or bool([x for x in c["cte"] if nm(x["nm"]) == nm(it["t"])])})
        return lv
    of = c["ob"]["from"]
    if not full and c["ctx"] == 3 and not c["ib"]:
        of = of[:c["onj"]]
    return ([level(c["ib"][0]["from"])] if c["ib"] else []) + [level(of)]


def shape(case):
    """Shape facts of a configuration (replica of the scope rules; used ONLY to match the signatures of open findings)."""
    c = case["c"]
    r = c["ref"]
    lv = _levels(c, full=False)
    f = {"fam": c["fam"], "ctx": c["ctx"], "pos": c["pos"], "k": r["k"], "sub": bool(c["ib"]), "flags": set()}
    fl = f["flags"]
    if any(len({nm(i["x"]) for i in l}) < len(l) for l in _levels(c)):
        fl.add("dup_exposed")
    for b in [i["d"][0] for blk in ([c["ob"]] + c["ib"]) for i in blk["from"] if i["d"]] + [w["body"] for w in c["cte"]]:
        if len({nm(i["al"] or i["t"]) for i in b["from"]}) < len(b["from"]):
            fl.add("dup_exposed")
    if any(len({nm(n) for n, _ in i["cols"]}) < len(i["cols"]) for l in lv for i in l if i["derived"]):
        fl.add("dup_derived_names")
    sel = c["ob"]["sel"]
    out_names = []
    for s_ in sel:
        if s_["k"] == 0:
            out_names.append(nm(s_["as"] or s_["n"]))
        else:
            out_names += [nm(n) for i in lv[-1] for n, _ in i["cols"] if s_["k"] == 1 or nm(i["x"]) == nm(s_["q"])]
    if len(set(out_names)) < len(out_names):
        fl.add("dup_output_names")
    for s_ in sel:
        if s_["k"] == 0 and not s_["q"] and sum(1 for i in lv[-1] if any(nm(n) == nm(s_["n"]) for n, _ in i["cols"])) >= 2:
            fl.add("sel_ambiguous")
    if any(i["x"] >= 100 for l in lv for i in l) or (r["k"] in (0, 3) and (r["q"] >= 100 or (r["k"] == 0 and r["n"] >= 100))):
        fl.add("case_variant")
    f["named"] = []
    f["den"] = []
    f["strict"] = "n/a"
    f["qualified"] = False
    if r["k"] == 0:
        f["qualified"] = bool(r["q"])
        f["named"] = {o for l in _levels(c) for i in l for n, o in i["cols"] if nm(n) == nm(r["n"]) and o != ERR}
        for s_ in sel:          # targets of select items whose OUTPUT name is the referenced name
            if s_["k"] == 0 and nm(s_["as"] or s_["n"]) == nm(r["n"]):
                f["named"] |= {o for i in lv[-1] for n, o in i["cols"] if nm(n) == nm(s_["n"]) and (not s_["q"] or nm(i["x"]) == nm(s_["q"]))}
        f["named"] = sorted(f["named"])
        # columns of that name INSIDE derived-table / CTE bodies (not exposed unless selected)
        bodies = [i["d"][0] for blk in ([c["ob"]] + c["ib"]) for i in blk["from"] if i["d"]] + [w["body"] for w in c["cte"]]
        f["body_named"] = sorted({nm(i["t"]) * 10 + p for b in bodies for i in b["from"] for p, n in enumerate(c["cat"][nm(i["t"]) - 1], start=1) if nm(n) == nm(r["n"])})
        if c["ctx"] == 3 and not c["ib"]:
            full = _levels(c)[0]
            f["later_named"] = sorted({o for i in full[c["onj"]:] for n, o in i["cols"] if nm(n) == nm(r["n"]) and (not r["q"] or nm(i["x"]) == nm(r["q"]))})
        f["strict"] = "unknown"
        for li, l in enumerate(lv):
            m = [(ii, o) for ii, i in enumerate(l) for n, o in i["cols"] if nm(n) == nm(r["n"]) and (not r["q"] or nm(i["x"]) == nm(r["q"]))]
            captured = bool(m) if not r["q"] else any(nm(i["x"]) == nm(r["q"]) for i in l)
            if captured:
                f["level"] = li
                f["den"] = [o for _, o in m]
                f["den_derived"] = bool(m) and all(l[ii]["derived"] for ii, _ in m)
                mine = {ii for ii, _ in m}
                f["other_items_named"] = sorted({o for ii, i in enumerate(l) if ii not in mine for n, o in i["cols"] if nm(n) == nm(r["n"])})
                f["strict"] = ("qual_no_column" if not m else "ok" if len(m) == 1 else "ambig_items" if len({ii for ii, _ in m}) >= 2 else "ambig_dup_derived")
                break
        if c["ib"]:
            f["inner_named"] = sorted({o for i in lv[0] for n, o in i["cols"] if nm(n) == nm(r["n"])})
            f["outer_named"] = sorted({o for i in lv[1] for n, o in i["cols"] if nm(n) == nm(r["n"])})
            if any(i["derived"] for i in lv[0]):
                fl.add("inner_cte_or_derived")
    elif r["k"] == 3:
        n = sum(1 for i in lv[0] if nm(i["x"]) == nm(r["q"]))
        f["strict"] = "qstar_unknown" if n == 0 else "qstar"
    return f


def features(case):
    f = shape(case)
    return {f"ctx{f['ctx']}", f"pos{f['pos']}", f["strict"], "q" if f.get("qualified") else "u"} | f["flags"]


# open findings (known_findings.jsonl): signature = scope shape + the misbehaviour observed on the unchanged engine.
K_DUPFROM = "C01/nameres-duplicate-exposed-name-accepted"
K_AMBIG = "C01/nameres-ambiguous-name-first-match"
K_QUAL = "C01/nameres-qualifier-ignored-on-miss"
K_QSTAR = "C01/nameres-qualified-star-unknown-qualifier"
K_DUPOUT = "C01/nameres-duplicate-output-names-conflated"
K_UNKSUB = "C01/nameres-unknown-name-in-subquery-is-null"
K_CASE = "C01/nameres-case-sensitive-identifiers"
K_CTESUB = "C01/nameres-subquery-over-cte-binds-outer-column"
K_INQUAL = "C01/nameres-in-subquery-correlated-qualifier-ignored"
K_PRUNE = "C01/nameres-unqualified-outer-reference-column-pruned"
K_ONLATER = "C01/nameres-on-clause-sees-later-from-item"
K_LEAK = "C01/nameres-derived-table-body-columns-leak"
K_DERQUAL = "C01/nameres-derived-table-reference-binds-other-item"
KNOWN_IDS = [K_DUPFROM, K_AMBIG, K_QUAL, K_QSTAR, K_DUPOUT, K_UNKSUB, K_CASE, K_CTESUB, K_INQUAL, K_PRUNE, K_ONLATER, K_LEAK, K_DERQUAL]


def known_class(case, kind, obs, why):
    """-> id of the open finding whose signature (scope shape AND observed misbehaviour) the failing case has, else None."""
    f = shape(case)
    fl = f["flags"]
    seen = set(obs["os"])
    if "dup_exposed" in fl:
        return K_DUPFROM
    if kind == "star":
        if f["strict"] == "qstar_unknown" and obs["star"] == []:
            return K_QSTAR
        if "dup_derived_names" in fl and len(obs["star"]) == len(case["star"]) and set(obs["star"]) <= set(case["star"]):
            return K_DUPOUT
        return None
    if "select list bound to origins" in why:
        return K_DUPOUT if "dup_output_names" in fl and set(obs["sel"]) <= set(case.get("out") or []) else None
    if f["k"] == 1:
        return K_DUPOUT if "dup_output_names" in fl and seen <= set(all_origins(case["c"])) else None
    if f["k"] != 0:
        return None
    named = set(f["named"]) | set(case.get("out") or [])
    # ORDER BY / GROUP BY observations are "consistent-with" sets (supersets); probes and values are exact
    within = (lambda S: bool(seen & S)) if kind in ("order", "group") else (lambda S: seen <= S)
    if "with a column of the outer block projected" in why:
        return K_PRUNE if (f["sub"] and not f["qualified"] and f["strict"] == "ok" and f.get("level") == 1 and f["pos"] >= 2 and not obs["os_b"]) else None
    if "case_variant" in fl and within(named):
        return K_CASE
    if f["strict"] == "ambig_items" and (f["ctx"] in (2, 3, 5, 6) or f["fam"] == "group") and within(set(f["den"])):
        return K_AMBIG
    if f["fam"] == "group" and "sel_ambiguous" in fl and ERR in (case.get("out") or []) and within(named | set(all_origins(case["c"]))):
        return K_AMBIG
    # the predicate over a derived table's output column is evaluated INSIDE the body, by name: it binds the body's own column of that name
    if f["strict"] in ("ok", "ambig_dup_derived") and f.get("den_derived") and f["ctx"] == 2 and not f["sub"] and seen <= (set(f["body_named"]) - set(f["den"])) \
            and (set(f["body_named"]) - set(f["den"])):
        return K_LEAK
    if f["strict"] == "ambig_dup_derived" and within(set(f["den"])):
        return K_DUPOUT
    if "dup_output_names" in fl and f["ctx"] == 6 and within(named):
        return K_DUPOUT
    if f["strict"] in ("unknown", "qual_no_column") and f.get("later_named") and seen and seen <= set(f["later_named"]):
        return K_ONLATER
    if f["strict"] in ("unknown", "qual_no_column") and f["ctx"] in (2, 3, 5, 6) and seen and not (seen & named) and seen <= set(f["body_named"]):
        return K_LEAK
    if f["strict"] == "ok" and f.get("den_derived") and not f["sub"] and seen and seen <= set(f["other_items_named"]):
        return K_DERQUAL
    if f["qualified"] and f["strict"] in ("unknown", "qual_no_column") and f["ctx"] in (2, 3, 5, 6) and within(named):
        return K_QUAL
    if not f["qualified"] and f["strict"] == "unknown" and f["sub"] and f["ctx"] == 2 and not seen:
        return K_UNKSUB
    if f["sub"] and "inner_cte_or_derived" in fl and f["strict"] == "ok" and f.get("level") == 0 and seen and seen <= set(f["outer_named"]):
        return K_CTESUB
    if f["sub"] and f["pos"] == 4 and f["ctx"] == 2 and f["qualified"] and f["strict"] == "ok" and f.get("level") == 1 and seen and seen <= set(f["inner_named"]):
        return K_INQUAL
    return None


# ------------------------------------------------------------------ TLC
def tlc_cases(ctx, tier, mut="none", invariants=None, workers=8, timeout=2400):
    if mut == "none" and invariants is None:
        cfg = f"NameRes_{tier}.cfg"
    else:
        cfg = os.path.join(_wd(ctx), f"NameRes_{tier}_{mut}.cfg")
        with open(cfg, "w") as f:
            f.write(f'CONSTANTS Tier = "{tier}"\n          Mut = "{mut}"\nINIT Init\nNEXT Next\n')
            for inv in (invariants or ["Laws", "Emit"]):
                f.write(f"INVARIANT {inv}\n")
            f.write("CHECK_DEADLOCK FALSE\n")
    extra = ["-continue"] if invariants and len(invariants) > 1 else None
    res = vlib.run_tlc("NameRes", cfg, workers=workers, timeout=timeout, tag=f"{ctx.pid}-nameres-{mut}", extra=extra)
    return res


def evaluate(ctx, cases, tag, wide=False, nproc=4):
    """materialise, run, observe, judge.  -> list of (case, kind, stmts, obs, verdict, why)"""
    plans = []
    flat = []
    for case in cases:
        st, kind, mode = plan(case, wide=wide)
        tabs, multi = tables_of(case["c"], mode)
        for s in st:
            s["tables"] = tabs
        plans.append((case, kind, st, multi, len(flat)))
        flat += st
    outs = run_statements(ctx, flat, tag, nproc=nproc)
    res = []
    for case, kind, st, multi, off in plans:
        o = outs[off:off + len(st)]
        obs = observe(case, kind, st, o, multi)
        v, why = verdict(case, kind, obs)
        res.append((case, kind, st, obs, v, why))
    return res, len(flat)


def short(case, st, why):
    return {"kind": "nameres", "c": case["c"], "al": case.get("al"), "star": case.get("star"), "out": case.get("out"), "cand": case.get("cand"),
            "sql": [s["sql"] for s in st][:12], "why": why[:400]}


def settle(ctx, results, nr):
    """violations / known findings / fidelity notes from judged results."""
    for case, kind, st, obs, v, why in results:
        fam = case["c"]["fam"]
        nr["by_family"].setdefault(fam, {"cases": 0, "ok": 0, "refused": 0, "bad": 0})
        b = nr["by_family"][fam]
        b["cases"] += 1
        b[v] += 1
        if v == "refused":
            nr["nameres_refused"] += 1
            k = re.sub(r"[0-9]+", "N", obs["why"])[:60]
            nr["refused_by_message"][k] = nr["refused_by_message"].get(k, 0) + 1
            if len(nr["refused_examples"]) < 6:
                nr["refused_examples"].append({"sql": st[0]["sql"], "allowed": case.get("al"), "engine": obs["why"]})
        elif v == "bad":
            fid = known_class(case, kind, obs, why)
            if fid and ctx.is_known(fid):
                ctx.known(fid, {"sql": st[0]["sql"] if len(st) == 1 else [s["sql"] for s in st][:3], "why": why[:200]})
                nr["known"][fid] = nr["known"].get(fid, 0) + 1
            else:
                ctx.violation(short(case, st, why), "name resolution: " + why + " — " + "; ".join(s["sql"] for s in st[:2]))


# ------------------------------------------------------------------ random configurations for the trace direction
def random_cfgs(seed, n):
    rnd = random.Random(seed * 7919 + 13)
    out = []

    def cat():
        return [rnd.sample([1, 2, 3, 4], rnd.randint(1, 3)) for _ in range(3)]

    def item(aliases=(0, 0, 4, 5, 1, 2, 3)):
        return {"t": rnd.randint(1, 3), "al": rnd.choice(aliases), "d": []}

    def ref(qs=(0, 0, 0, 1, 2, 3, 4, 5)):
        return {"k": 0, "q": rnd.choice(qs), "n": rnd.randint(1, 4), "x": 0}
    while len(out) < n:
        fam = rnd.choice(["flat", "flat", "nest", "nest", "on", "star", "order", "deriv"])
        c = {"fam": fam, "cat": cat(), "cte": [], "ob": {"from": [item() for _ in range(rnd.randint(1, 3))], "sel": []}, "ib": [], "pos": 0,
             "ctx": 1, "onj": 0, "ref": ref(), "ph": 1}
        if fam == "flat":
            c["ctx"] = rnd.choice([1, 2])
        elif fam == "nest":
            c["ib"] = [{"from": [item() for _ in range(rnd.randint(1, 2))], "sel": []}]
            c["ob"]["from"] = c["ob"]["from"][:2]
            c["pos"], c["ctx"] = rnd.choice([(1, 1), (1, 2), (2, 2), (3, 1), (3, 2), (4, 1), (4, 2)])
        elif fam == "on":
            if len(c["ob"]["from"]) < 2:
                c["ob"]["from"].append(item())
            c["ctx"] = 3
            c["onj"] = rnd.randint(2, len(c["ob"]["from"]))
        elif fam == "star":
            c["ref"] = rnd.choice([{"k": 2, "q": 0, "n": 0, "x": 0}, {"k": 3, "q": rnd.randint(1, 5), "n": 0, "x": 0}])
        elif fam == "order":
            c["ob"]["from"] = [{"t": rnd.randint(1, 3), "al": rnd.choice([0, 0, 4]), "d": []}]
            x = c["ob"]["from"][0]["al"] or c["ob"]["from"][0]["t"]
            cols = c["cat"][c["ob"]["from"][0]["t"] - 1]
            c["ob"]["sel"] = [{"k": 0, "q": rnd.choice([0, x]), "n": rnd.choice(cols), "as": rnd.choice([0, 0, 1, 2, 3, 4])} for _ in range(rnd.randint(1, 3))]
            c["ctx"] = 6
            c["ref"] = rnd.choice([{"k": 0, "q": rnd.choice([0, 0, x]), "n": rnd.randint(1, 4), "x": rnd.choice([0, 0, 1])},
                                   {"k": 1, "q": 0, "n": rnd.randint(0, 4), "x": 0}])
        elif fam == "deriv":
            inner = [{"t": rnd.randint(1, 3), "al": 0, "d": []} for _ in range(rnd.randint(1, 2))]
            sel = []
            for _ in range(rnd.randint(1, 3)):
                it = rnd.choice(inner)
                sel.append({"k": 0, "q": rnd.choice([0, it["t"]]), "n": rnd.choice(c["cat"][it["t"] - 1]), "as": rnd.choice([0, 0, 1, 2, 3, 4])})
            if rnd.random() < 0.2:
                sel = [{"k": 1, "q": 0, "n": 0, "as": 0}]
            d = {"t": 0, "al": rnd.choice([4, 5]), "d": [{"from": inner, "sel": sel}]}
            c["ob"]["from"] = [d] + ([item()] if rnd.random() < 0.4 else [])
            c["ctx"] = rnd.choice([1, 2])
            c["ref"] = ref((0, 0, 4, 5, 1))
        out.append(c)
    return out


def judge_trace(ctx, recs, name, account=True):
    """NameResTrace.tla judges every record in one TLC run -> [(index, reject info)], TlcResult"""
    path = os.path.join(_wd(ctx), f"{name}.ndjson")
    vlib.write_ndjson(path, recs)
    res = vlib.run_tlc("NameResTrace", "NameResTrace.cfg", workers=1, timeout=3000, env={"TRACE": path}, deque=True, tag=f"{ctx.pid}-{name}")
    judged = [r for k, r in res.prints if k == "JUDGED"]
    if res.error or not judged or judged[0]["n"] != len(recs):
        vlib.log(res.out[-3000:])
        raise vlib.ToolError(f"NameResTrace did not judge all {len(recs)} records: {str(res.error)[:300]}")
    if account:
        account_trace(ctx, res, len(recs))
    return [(r["line"] - 1, r) for k, r in res.prints if k == "REJECT"], res


def account_trace(ctx, res, n):
    ctx.tlc_stats(res, f"trace validation NameResTrace ({n} records)")
    ctx.add("traces_validated_against_impl", 1)
    ctx.add("trace_events_validated", n)


def trace_direction(ctx, n):
    """Runs in a worker thread: touches no shared counters; settle_trace() does the bookkeeping afterwards."""
    cfgs = random_cfgs(ctx.seed, n)
    cases = [{"c": c, "al": [0], "star": [0] * sum(len(c["cat"][nm(i["t"]) - 1]) if not i["d"] else 3 for i in c["ob"]["from"])} for c in cfgs]
    # observation does not need the model: probes range over every origin of the catalog
    plans = []
    flat = []
    for case in cases:
        st, kind, mode = plan(case, wide=True)
        tabs, multi = tables_of(case["c"], mode)
        for s in st:
            s["tables"] = tabs
        plans.append((case, kind, st, multi, len(flat)))
        flat += st
    outs = run_statements(ctx, flat, "trace", nproc=max(2, NPROC[ctx.tier] // 2))
    recs = []
    keep = []
    for case, kind, st, multi, off in plans:
        obs = observe(case, kind, st, outs[off:off + len(st)], multi)
        recs.append({"cfg": case["c"], "obs": {"e": obs["e"], "os": obs["os"], "star": obs["star"], "sel": obs["sel"]}})
        keep.append((case, kind, st, obs))
    rejl, res = judge_trace(ctx, recs, "nameres-trace", account=False)
    return {"recs": recs, "keep": keep, "rejl": rejl, "res": res, "statements": len(flat)}


def settle_trace(ctx, nr, t):
    recs, keep, rejl = t["recs"], t["keep"], t["rejl"]
    account_trace(ctx, t["res"], len(recs))
    rejected = {i for i, _ in rejl}
    nr["trace_records"] = len(recs)
    nr["trace_statements"] = t["statements"]
    nr["trace_rejected"] = len(rejl)
    nr["trace_answers_accepted"] = sum(1 for r in recs if r["obs"]["e"] == 0) - len(rejl)
    nr["trace_errors_accepted"] = sum(1 for r in recs if r["obs"]["e"] == 1)
    for i, ((case, kind, st, obs), r) in enumerate(zip(keep, recs)):
        if i in rejected:
            why = f"recorded (scope, reference, outcome) rejected by NameResTrace.tla: engine answer {obs['why']}"
            fid = known_class(case, kind, obs, why)
            if fid and ctx.is_known(fid):
                ctx.known(fid, {"sql": st[0]["sql"], "why": why[:200]})
                nr["known"][fid] = nr["known"].get(fid, 0) + 1
            else:
                ctx.violation({"kind": "nameres", "trace": r, "sql": [s["sql"] for s in st][:12], "why": why[:400]}, "name resolution (trace): " + why + " — " + st[0]["sql"])


# ------------------------------------------------------------------ entry points
def run_sub(ctx):
    t0 = time.time()
    quick = ctx.tier == "quick"
    nr = {"by_family": {}, "nameres_refused": 0, "refused_by_message": {}, "refused_examples": [], "known": {}}
    ex = cf.ThreadPoolExecutor(max_workers=1)
    trace_job = ex.submit(trace_direction, ctx, 300 if quick else 6000)      # independent of the TLC enumeration
    res = tlc_cases(ctx, ctx.tier)
    vlib.tlc_must_pass(res, "NameRes")
    ctx.tlc_stats(res, f"NameRes.tla ({ctx.tier}): laws L1-L9 on every enumerated scope configuration; {len(res.cases)} cases emitted")
    cases = res.cases
    t_tlc = time.time() - t0
    if len(cases) < (2000 if quick else 40000):
        raise vlib.ToolError(f"NameRes emitted only {len(cases)} cases")
    fams = {}
    for c in cases:
        fams[c["c"]["fam"]] = fams.get(c["c"]["fam"], 0) + 1
    missing = [f for f in ("flat", "on", "nest", "deriv", "cte", "ctenest", "star", "order", "group", "selalias", "case") if not fams.get(f)]
    if missing:
        raise vlib.ToolError(f"NameRes: no case emitted for families {missing}")
    results, nstmt = evaluate(ctx, cases, "cases", wide=False, nproc=NPROC[ctx.tier])
    settle(ctx, results, nr)
    nontrivial = sum(1 for case, *_ in results if any(o != ERR for o in case["al"]) or (case["star"] and case["star"] != [ERR]))
    resolved_kinds = {}
    for case, kind, st, obs, v, why in results:
        resolved_kinds[kind] = resolved_kinds.get(kind, 0) + 1
    t_eval = time.time() - t0 - t_tlc
    settle_trace(ctx, nr, trace_job.result())
    ex.shutdown()
    for case, kind, st, obs, v, why in results[:2] + results[len(results) // 2:len(results) // 2 + 2]:
        ctx.sample({"nameres_case": {"sql": st[0]["sql"], "allowed": case["al"] or case["star"], "observed": obs["os"] or obs["star"], "engine_error": obs["e"]}}, cap=10)
    ctx.add("evaluations", nstmt + nr["trace_statements"])
    ctx.add("distinct_nontrivial", nontrivial)
    nr.update({"tlc_cases": len(cases), "cases_per_family": fams, "statements": nstmt, "observation_kinds": resolved_kinds,
               "distinct_nontrivial": nontrivial,
               "wall_s": {"tlc": round(t_tlc, 1), "conformance": round(t_eval, 1), "total": round(time.time() - t0, 1)},
               "rule": "TLC enumerates scope configurations (<=3 FROM items with optional aliases incl. aliases equal to other table names, <=3 columns per table "
                       "from the alphabet a..d, an optional sub-query block at 4 positions, derived tables / CTEs with aliased, duplicated and star select lists, "
                       "`*`/`q.*`, select aliases seen from ORDER BY / GROUP BY / HAVING / WHERE, ordinals, JOIN..ON scope, upper-case spellings) x references; "
                       "non-trivial = the model resolves the reference to a column (not only to an error)."})
    ctx.set("nameres", nr)
    if nr["nameres_refused"]:
        ctx.notes.append(f"nameres_refused: the engine refused {nr['nameres_refused']} statements the model resolves (permitted under C01; by message: {nr['refused_by_message']})")
    ctx.assumptions += [
        "nameres: a column's identity is observed through the distinct constant it holds (value // 10 = table*10 + position); two FROM items over the same base table are indistinguishable by value",
        "nameres: where dialects differ (select aliases in WHERE/GROUP BY/HAVING, duplicate output names of a derived table, ORDER BY name matching several output columns, aliases inside ORDER BY expressions) every documented behaviour of PostgreSQL/DuckDB/MySQL/SQLite is allowed",
        "nameres: USING / NATURAL joins, LATERAL, column alias lists `t(a,b)`, quoted identifiers and nested WITH are not modelled",
    ]
    return nr


def replay_sub(ctx, obj):
    c = obj["case"]
    if "trace" in c:
        rej, _ = judge_trace(ctx, [c["trace"]], "nameres-replay")
        ctx.add("evaluations")
        ctx.sample(c["trace"])
        if rej:
            ctx.violation(c, "recorded (scope, reference, outcome) rejected by NameResTrace.tla")
        return
    case = {"c": c["c"], "al": c["al"], "star": c["star"], "out": c.get("out"), "cand": c.get("cand")}
    results, n = evaluate(ctx, [case], "replay", wide=True, nproc=1)
    ctx.add("evaluations", n)
    nr = {"by_family": {}, "nameres_refused": 0, "refused_by_message": {}, "refused_examples": [], "known": {}}
    settle(ctx, results, nr)
    ctx.sample({"sql": [s["sql"] for s in results[0][2]][:4], "observed": results[0][3]})


def selftest_sub(ctx):
    """1. corrupted expected binding rejected; 2. swapped column constant rejected; 3. corrupted trace record rejected;
    4. every spec mutant is rejected by at least one TLC law."""
    bad = 0
    mk = lambda c, al, star=None, out=None, cand=None: {"c": c, "al": al, "star": star or [], "out": out or [], "cand": cand or []}
    K1 = [[1, 2, 3], [1, 2, 4], [1, 3, 4]]
    it = lambda t, al=0: {"t": t, "al": al, "d": []}
    base = {"fam": "flat", "cat": K1, "cte": [], "ob": {"from": [it(1), it(2)], "sel": []}, "ib": [], "pos": 0, "ctx": 1, "onj": 0, "ref": {"k": 0, "q": 0, "n": 3, "x": 0}, "ph": 1}
    good = mk(base, [13], cand=[13])                 # SELECT c FROM t1, t2  -> t1.c
    wrong = mk(base, [24], cand=[13, 24])            # corrupted expected binding
    onlyerr = mk(base, [ERR])                        # "must fail" but the engine answers
    r, _ = evaluate(ctx, [good, wrong, onlyerr], "selftest", nproc=1)
    vs = [x[4] for x in r]
    log = vlib.log
    log(f"[selftest] expected binding ok/corrupted/error-only -> {vs}")
    if vs != ["ok", "bad", "bad"]:
        bad += 1
    # swapped column constants: the table data no longer matches the origin encoding
    st, kind, mode = plan(good)
    tabs, multi = tables_of(good["c"], mode)
    tabs = json.loads(json.dumps(tabs))
    tabs[0]["rows"][0][1], tabs[0]["rows"][0][2] = tabs[0]["rows"][0][2], tabs[0]["rows"][0][1]     # t1.b <-> t1.c
    for s in st:
        s["tables"] = tabs
    outs = run_statements(ctx, st, "selftest-swap", nproc=1)
    v, why = verdict(good, kind, observe(good, kind, st, outs, multi))
    log(f"[selftest] swapped column constant -> {v}: {why[:120]}")
    if v != "bad":
        bad += 1
    # WHERE-probe, ORDER BY and star observations bind too
    wcase = mk(dict(base, ctx=2, ob={"from": [it(1, 4), it(2)], "sel": []}, ref={"k": 0, "q": 4, "n": 1, "x": 0}), [21], cand=[11, 21])    # x.a is t1.a, claim t2.a
    ocase = mk(dict(base, fam="order", ctx=6, ob={"from": [it(1)], "sel": [{"k": 0, "q": 0, "n": 1, "as": 0}]}, ref={"k": 0, "q": 0, "n": 2, "x": 0}), [13], out=[11])
    scase = mk(dict(base, fam="star", ref={"k": 2, "q": 0, "n": 0, "x": 0}), [], star=[11, 12, 13, 21, 23, 22])
    r, _ = evaluate(ctx, [wcase, ocase, scase], "selftest2", nproc=1)
    vs = [x[4] for x in r]
    log(f"[selftest] corrupted WHERE / ORDER BY / star expectations -> {vs}")
    if vs != ["bad", "bad", "bad"]:
        bad += 1
    # trace direction: a correct record is accepted, a corrupted one rejected
    okrec = {"cfg": base, "obs": {"e": 0, "os": [13], "star": [], "sel": []}}
    badrec = {"cfg": base, "obs": {"e": 0, "os": [24], "star": [], "sel": []}}
    ambrec = {"cfg": dict(base, ref={"k": 0, "q": 0, "n": 1, "x": 0}), "obs": {"e": 0, "os": [11], "star": [], "sel": []}}
    rej = sorted(i for i, _ in judge_trace(ctx, [okrec, badrec, okrec, ambrec], "selftest-trace")[0])
    log(f"[selftest] trace spec rejected records {rej} of [ok, corrupted binding, ok, ambiguity silently resolved]")
    if rej != [1, 3]:
        bad += 1
    # spec mutants
    bad += len(run_mutants(ctx))
    log("[selftest] " + ("all corruptions and mutants rejected" if not bad else f"{bad} NOT detected"))
    return 1 if bad else 0


def run_mutants(ctx):
    """every seeded spec mutant must violate at least one law; -> list of mutants that survive"""
    def one(m):
        res = tlc_cases(ctx, "quick", mut=m, invariants=LAWS, workers=2, timeout=2400)
        viol = sorted(set(re.findall(r"Invariant (\w+) is violated", res.out)))
        return m, viol, res
    alive = []
    killed = {}
    with cf.ThreadPoolExecutor(max_workers=len(MUTANTS)) as ex:
        for m, viol, res in ex.map(one, MUTANTS):
            vlib.log(f"[nameres] spec mutant {m}: rejected by {viol}")
            killed[m] = viol
            if not viol:
                alive.append(m)
                vlib.log(res.out[-1500:])
    ctx.set("nameres_mutants_rejected_by", killed)
    return alive


def main(argv):
    tier = argv[1] if len(argv) > 1 else "quick"
    ctx = vlib.Ctx("X01", "quick" if tier == "selftest" else tier, int(os.environ.get("VERIF_SEED", "1") or 1), "model_checking")
    if tier == "selftest":
        return selftest_sub(ctx)
    run_sub(ctx)
    return ctx.finish()


if __name__ == "__main__":
    sys.exit(main(sys.argv))
