"""C39 — the TPC-H generator is deterministic and self-consistent (Tpch.tla / TpchTrace.tla)."""
import copy, json, os
import vlib
from vlib import run_tlc, tlc_must_pass, qev, write_ndjson, read_ndjson

LEVEL = "exploration"
DEVS = ["rowcount-float-truncation", "orders-custkey-dangling"]
MUTANTS = ["thread_rng", "hashmap_order", "sink_dependent", "rounding", "fk_beyond", "panics"]


def open_devs(ctx):
    return [d for d in DEVS if ctx.is_known(f"C39/{d}")]


def plan(ctx):
    s2 = 1000 + ctx.seed % 100000
    if ctx.tier == "quick":
        return {"sfs": [1, 2, 5, 9, 10], "seeds": [42, s2], "reps": 2, "threads": 4, "parquet_sfs": [1, 5, 9],
                "conc_sfs": [1, 2, 5], "keysets_max": 2, "count_sfs": list(range(1, 51))}
    return {"sfs": [1, 2, 3, 4, 5, 7, 9, 10, 18, 25, 36, 50], "seeds": [42, s2, 7, 2**31 - 1], "reps": 3, "threads": 4,
            "parquet_sfs": [1, 2, 5, 9, 10, 25, 50], "conc_sfs": [1, 2, 5, 10, 36, 50], "keysets_max": 5,
            "count_sfs": list(range(1, 51))}


def record(ctx, spec, tag, env=None):
    sp = os.path.join(ctx.work, f"{tag}.spec.json")
    outp = os.path.join(ctx.work, f"{tag}.rec.ndjson")
    json.dump(spec, open(sp, "w"))
    qev(["tpch-record", sp, outp, ctx.work], timeout=3000, env=env)
    return read_ndjson(outp)


def record_pools(ctx, spec, tag):
    """the same (sf, seed) pairs generated again in separate processes whose rayon pool has 1 / 3 / 7 workers: TLC judges
    their digests against seen[(sf, seed)] of the main run (generated data must not depend on the number of worker threads)"""
    small = dict(spec, sfs=spec["sfs"][:3] + spec["sfs"][-1:], reps=1, threads=1, parquet_sfs=spec["parquet_sfs"][:1], conc_sfs=[])
    out = []
    for n in (1, 3, 7):
        rs = record(ctx, small, f"{tag}_pool{n}", env={"RAYON_NUM_THREADS": str(n)})
        for r in rs:
            r["pool"] = n
        out += rs
    return out


def judge_trace(ctx, recs, opened, tag):
    """TLC judges every line; returns {line index in recs: (verdict, info)}."""
    path = os.path.join(ctx.work, f"{tag}.trace.ndjson")
    write_ndjson(path, [{"open": opened}] + recs)
    res = run_tlc("TpchTrace", "TpchTrace.cfg", workers=1, timeout=2400, env={"TRACE": path}, deque=True,
                  heap="6g", tag=f"C39-{tag}")
    if res.error or not res.ok:
        vlib.log(res.out[-4000:])
        raise vlib.ToolError(f"TpchTrace did not complete: {str(res.error)[:300]}")
    out = {}
    done = False
    for k, r in res.prints:
        if k == "DONE":
            done = r["lines"] == len(recs) + 1
        elif k in ("ACCEPT", "KNOWN", "REJECT", "TOOL"):
            out[r["line"] - 2] = (k, r)
    if not done or len(out) != len(recs):
        vlib.log(res.out[-3000:])
        raise vlib.ToolError(f"TpchTrace judged {len(out)} of {len(recs)} lines")
    return out, res


def slim(r):
    r = copy.deepcopy(r)
    for k in r.get("fk", {}).values():
        k.pop("refset", None); k.pop("exset", None)
    r.pop("digests", None)
    return r


def apply_verdicts(ctx, recs, verdicts):
    n_ok = 0
    for i, r in enumerate(recs):
        v, info = verdicts[i]
        if v == "TOOL":
            raise vlib.ToolError(f"line {i}: {info.get('why')}")
        if v == "ACCEPT":
            n_ok += 1
        elif v == "KNOWN":
            for d in info["devs"]:
                ex = {"sf": r["sf"] / 1000.0, "seed": r.get("seed"), "counts": r.get("counts")}
                if d == "orders-custkey-dangling":
                    ex["o_custkey"] = {k: r["fk"]["o_custkey"][k] for k in ("rows", "missing_rows", "min_missing", "max_missing")}
                ctx.known(f"C39/{d}", ex)
        else:
            case = {"kind": r["ev"], "sf": r["sf"], "seed": r.get("seed", 42), "rec": slim(r)}
            ctx.violation(case, f"generation sf={r['sf']/1000.0} seed={r.get('seed')} thread={r.get('thread')} sink={r.get('sink')} "
                                f"rejected by Tpch.tla: {info.get('why')}")
    return n_ok


def model(ctx):
    res = run_tlc("Tpch", f"Tpch_{ctx.tier}.cfg", workers=4, timeout=1800, coverage=(ctx.tier == "thorough"))
    tlc_must_pass(res, "Tpch")
    ctx.tlc_stats(res, "Tpch: pure generator and six mutant implementations through every short history of runs")
    killed = {}
    for k, r in res.prints:
        if k == "KILL":
            killed.setdefault(r["impl"], set()).add(r["why"])
    if "pure" in killed:
        raise vlib.ToolError("Tpch.tla rejects the pure generator")
    for m in MUTANTS:
        if m not in killed:
            raise vlib.ToolError(f"Tpch.tla never rejects the mutant generator {m} (vacuous acceptance)")
    ctx.set("model_mutants_rejected", {k: sorted(v) for k, v in killed.items()})


def run(ctx):
    model(ctx)
    spec = plan(ctx)
    recs = record(ctx, spec, "run")
    pools = record_pools(ctx, spec, "run")
    ctx.set("generations_under_other_rayon_pool_sizes", len([r for r in pools if r.get("ev") == "gen"]))
    recs = recs + pools
    opened = open_devs(ctx)
    verdicts, res = judge_trace(ctx, recs, opened, "run")
    ctx.tlc_stats(res, f"trace validation TpchTrace ({len(recs)} records)")
    n_ok = apply_verdicts(ctx, recs, verdicts)
    gens = [r for r in recs if r["ev"] == "gen"]
    # vacuity: purity must actually have been observed across repetitions, threads and sinks
    groups = {}
    for r in gens:
        if r.get("panic") == 0:
            groups.setdefault((r["sf"], r["seed"]), []).append(r)
    rich = [g for g in groups.values() if len({x["sink"] for x in g}) == 2 and len({x["thread"] for x in g}) >= 4 and len(g) >= 6]
    if not rich or len(gens) < 20:
        raise vlib.ToolError("no (sf, seed) was generated repeatedly on several threads and into both sinks")
    if not any(r["fk"]["l_orderkey"]["sets"] == 1 for r in gens if r.get("panic") == 0):
        raise vlib.ToolError("no run sent its key sets to TLC")
    # independent restatement of purity (must agree with TLC's verdicts)
    for key, g in groups.items():
        if len({x["digest"] for x in g}) > 1 and all(verdicts[recs.index(x)][0] != "REJECT" for x in g):
            raise vlib.ToolError(f"TLC accepted differing digests for {key}")
    drift = [r for r in gens if r.get("panic") == 0 and r["counts"] != r["declared"]]
    if drift:
        ctx.notes.append(f"fidelity: {len(drift)} runs produced row counts different from TpchRowCounts::for_scale_factor")
    nontrivial = {(r["sf"], r["seed"], r["thread"], r["sink"], r["rep"]) for r in gens
                  if r.get("panic") == 0 and r["counts"]["lineitem"] >= 1000}
    ctx.set("evaluations", len(recs))
    ctx.set("distinct_nontrivial", len(nontrivial))
    ctx.set("traces_validated_against_impl", 1)
    ctx.set("trace_events_validated", len(recs))
    ctx.set("accepted_ideally", n_ok)
    ctx.set("scale_factors_generated", [n / 1000.0 for n in spec["sfs"]])
    ctx.set("seeds", spec["seeds"])
    ctx.set("sf_seed_pairs_with_threads_and_both_sinks", len(rich))
    ctx.set("rule", "one case = one generation (sf, seed, thread, sink, repetition) of all eight tables by the real generator, "
            "recorded with an order-sensitive digest of every cell, the row counts and the ten foreign-key summaries (key sets for "
            "sf <= keysets_max/1000), judged by TLC with the history variable seen[(sf, seed)]; non-trivial = a run with >= 1000 lineitem "
            "rows. The declared cardinalities are also judged for every sf in 0.001..0.050 step 0.001.")
    ctx.set("exhaustive", False)
    for r in gens[:2] + gens[len(gens) // 2: len(gens) // 2 + 1]:
        ctx.sample({k: r[k] for k in ("sf", "seed", "thread", "sink", "rep", "digest", "counts") if k in r})
    ctx.assumptions += ["digests are 64-bit FNV-1a over all cell values in order (collisions ignored)",
                        "Parquet files are read back with the parquet crate, not with the engine",
                        "above sf keysets_max/1000 the foreign-key summaries computed by the harness are trusted (below, TLC recomputes them from the key sets)",
                        "lineitem cardinality is pinned only as 1..7 rows per order; primary-key uniqueness is not part of the property"]


def replay(ctx, obj):
    c = obj["case"]
    n, seed = c["sf"], c.get("seed", 42)
    spec = {"sfs": [n], "seeds": [seed] if seed is not None and seed >= 0 else [42], "reps": 2, "threads": 4,
            "parquet_sfs": [n], "conc_sfs": [n], "keysets_max": 5, "count_sfs": [n]}
    recs = record(ctx, spec, "replay")
    verdicts, res = judge_trace(ctx, recs, open_devs(ctx), "replay")
    ctx.tlc_stats(res, "replay")
    apply_verdicts(ctx, recs, verdicts)
    ctx.set("evaluations", len(recs)); ctx.set("distinct_nontrivial", len(recs)); ctx.sample(slim(recs[-1]))


def selftest(ctx):
    spec = {"sfs": [1, 2], "seeds": [42], "reps": 2, "threads": 2, "parquet_sfs": [1], "conc_sfs": [1],
            "keysets_max": 1, "count_sfs": [1, 2, 3]}
    recs = record(ctx, spec, "selftest")
    opened = DEVS
    base, _ = judge_trace(ctx, recs, opened, "st0")
    fails = []
    if any(v[0] in ("REJECT", "TOOL") for v in base.values()):
        fails.append("uncorrupted trace rejected")
    gens = [i for i, r in enumerate(recs) if r["ev"] == "gen" and r["panic"] == 0]

    def expect(tag, mut, line, want, why=None, opened=opened):
        rs = copy.deepcopy(recs)
        mut(rs)
        v, _ = judge_trace(ctx, rs, opened, tag)
        got = v[line]
        if got[0] != want or (why and got[1].get("why") != why):
            fails.append(f"{tag}: expected {want}/{why} at line {line}, got {got}")

    second = gens[1]
    # a digest that changes between two runs of the same (sf, seed)
    expect("st1", lambda rs: rs[second].__setitem__("digest", rs[second]["digest"][:-1] + ("0" if rs[second]["digest"][-1] != "0" else "1")),
           second, "REJECT", "impure")
    # Parquet read back differs from memory
    pq = [i for i in gens if recs[i]["sink"] == 2][0]
    expect("st2", lambda rs: rs[pq].__setitem__("digest", "x" + rs[pq]["digest"]), pq, "REJECT", "impure")
    # row-count drift
    def drift(rs): rs[second]["counts"]["partsupp"] += 3
    expect("st3", drift, second, "REJECT", "counts")
    # an order key beyond orders
    def beyond(rs):
        k = rs[second]["fk"]["l_orderkey"]
        k["missing"], k["missing_rows"], k["min_missing"], k["max_missing"] = 1, 2, 999999, 999999
    expect("st4", beyond, second, "REJECT", "fk")
    # the harness's own summary is checked against the key sets
    withsets = [i for i in gens if recs[i]["fk"]["l_orderkey"]["sets"] == 1][0]
    def lie(rs): rs[withsets]["fk"]["o_custkey"]["missing"] = 0; rs[withsets]["fk"]["o_custkey"]["missing_rows"] = 0
    expect("st5", lie, withsets, "TOOL")
    # a panic is a violation
    expect("st6", lambda rs: rs[second].__setitem__("panic", 1), second, "REJECT", "panic")
    # classification only through the open list
    if any(v[0] == "KNOWN" for v in base.values()):
        v, _ = judge_trace(ctx, recs, [], "st7")
        if not any(x[0] == "REJECT" for x in v.values()):
            fails.append("st7: with no open finding the deviating records are still not rejected")
    # a declared cardinality off by one where nothing is truncated
    ci = [i for i, r in enumerate(recs) if r["ev"] == "counts" and r["sf"] == 1][0]
    def cdrift(rs): rs[ci]["counts"]["orders"] += 1
    expect("st8", cdrift, ci, "REJECT", "counts")
    if fails:
        for f in fails:
            print("selftest FAILED:", f)
        return 1
    print(f"selftest ok: impure digests (run-to-run, sink-to-sink), count drift, dangling order key, lying summary, panic and "
          f"unlisted deviations were all rejected ({len(recs)} records)")
    return 0
