"""C01 — SQL answers agree with standard SQL semantics (SqlSem.tla as the oracle)."""
import sqlprop, sqlcheck
LEVEL = "model_checking"

def run(ctx):
    sqlprop.run_sql_property(ctx, corpus=["general", "noalias", "limoff"], seeded=[("single", None), ("joins", None)], quick_n=350,
        cfgs=[sqlprop.cfg("mem1"), sqlprop.cfg("mem_b3", batches=3)],
        rule="Frozen corpus of generator-built statements (projection, WHERE, joins, GROUP BY/HAVING, DISTINCT, ORDER BY/LIMIT/OFFSET, "
             "set operations, subqueries, CTEs, CASE/COALESCE/IN/BETWEEN/LIKE over <=2 tables x <=4 rows of the six types with NULLs and "
             "duplicates) plus VERIF_SEED-drawn statements from the restricted grammar; every engine outcome is judged by TLC against "
             "SqlSem.tla (bag equality, or tie-tolerant ORDER BY/LIMIT acceptance).")
    import nameres                     # X01 "NameRes" sub-model (checks/nameres.py): which column a name denotes
    nameres.run_sub(ctx)

def replay(ctx, obj):
    if obj.get("case", {}).get("kind") == "nameres":
        import nameres
        return nameres.replay_sub(ctx, obj)
    sqlcheck.replay_sql(ctx, obj)


def selftest(ctx):
    import nameres
    return nameres.selftest_sub(ctx) or sqlprop.selftest(ctx, [])
