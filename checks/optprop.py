"""Shared pieces of the optimizer properties C03 / C31 / C32."""
import json, os, random
import sqlcheck, sqlloop, sqlprop, vlib

RULES = ["ConstantFolding", "DeriveOrPredicates", "PredicatePushdown", "FlattenDependentJoin", "SubqueryDecorrelation",
         "SemiJoinPushdown", "JoinReorder", "HavingTotalCse", "GroupKeyReduction", "EagerAggregation", "PackedGroupKeys",
         "PackedJoinKeys", "ProjectionPushdown"]
PRODUCTION = ["ConstantFolding", "DeriveOrPredicates", "PredicatePushdown", "FlattenDependentJoin", "SubqueryDecorrelation",
              "SemiJoinPushdown", "JoinReorder", "PredicatePushdown", "HavingTotalCse", "GroupKeyReduction", "EagerAggregation",
              "PackedGroupKeys", "PackedJoinKeys", "ProjectionPushdown", "VectorSearchPushdown"]
PQ = dict(layout="parquet", files=1, rg=8)


def rule_cfgs(prefixes=True):
    cfgs = [dict(name="pq_norules", rules=[], **PQ)]
    cfgs += [dict(name="pq_rule_" + r, rules=[r], **PQ) for r in RULES]
    if prefixes:
        for k in (3, 5, 6, 7, 9, 10, 11, 12, 13, 14):
            cfgs.append(dict(name=f"pq_prefix_{k}", rules=PRODUCTION[:k], **PQ))
    cfgs.append(dict(name="pq_production_list", rules=PRODUCTION, **PQ))
    cfgs.append(dict(name="mem_production_list", layout="mem", rules=PRODUCTION))
    return cfgs


def fired_observer(ctx):
    """records which rules changed a plan (H2 path tags from production runs, `changed` flag of rule-list runs)"""
    fired = ctx.cov.setdefault("rules_fired", {})

    def f(cases, outs, cfgs):
        for o in outs:
            for m in o["meta"]:
                for p in m.get("paths", []) or []:
                    if p.startswith("rule."):
                        fired[p[5:]] = fired.get(p[5:], 0) + 1
                pl = m.get("plan") or {}
                if pl.get("changed") and str(m.get("cfg", "")).startswith("pq_rule_"):
                    k = "alone:" + m["cfg"][8:]
                    fired[k] = fired.get(k, 0) + 1
        return []
    return f


def require_fired(ctx, names):
    fired = ctx.cov.get("rules_fired", {})
    missing = [n for n in names if not fired.get(n)]
    if missing and ctx.tier == "thorough":
        raise vlib.ToolError(f"optimizer rules never observed firing (coverage hole): {missing}")
    if missing:
        ctx.notes.append(f"rules not observed firing in this (quick) sample: {missing}")
