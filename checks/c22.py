"""C22 — Joins follow SQL join semantics (SqlSem.tla as the oracle)."""
import sqlprop, sqlcheck
LEVEL = "model_checking"

def run(ctx):
    for fam in ['join']:
        sqlprop.laws(ctx, f"SqlLaws_{fam}_{ctx.tier}.cfg")
    sqlprop.run_sql_property(ctx, corpus=['join', 'joinx', 'big'], seeded=[('joins', {'null_p': 0.3, 'dom': 2})], quick_n=200, seeded_quick=250, cfgs=[sqlprop.cfg('mem1'), sqlprop.cfg('mem_b3', batches=3), sqlprop.cfg('mem_b40', batches=40, keep_empty=True), sqlprop.cfg('pq_2f_rg1', layout='parquet', files=2, rg=1), sqlprop.cfg('pq_rg1_stream', layout='parquet', files=1, rg=1, switches=['stream_small'])],
        rule='inner/left/right/full/cross joins with 1-2 equi-keys of int/string/date/double columns, NULL keys, duplicates, residual ON predicates over either/both sides; TLC checks the join laws (subset/mirror/cardinality/NULL keys/residual before match tracking) over all small table pairs.')

def replay(ctx, obj):
    sqlcheck.replay_sql(ctx, obj)

def selftest(ctx):
    return sqlprop.selftest(ctx, ['join'])
