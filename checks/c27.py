"""C27 — GROUPING SETS, ROLLUP and CUBE match their SQL definition (SqlSem.tla as the oracle)."""
import sqlprop, sqlcheck
LEVEL = "model_checking"

def run(ctx):
    sqlprop.laws(ctx, f"SqlLaws_agg_{ctx.tier}.cfg") if "C27" == "C27" else None
    sqlprop.run_sql_property(ctx, corpus=['gsets'], seeded=[], quick_n=500,
        rule='GROUP BY ROLLUP / CUBE / GROUPING SETS (incl. duplicate and empty sets) over 1-3 nullable grouping columns with COUNT/SUM/MIN/MAX and GROUPING(c..) bitmasks; SqlSem.GroupRows defines the answer as the bag union of one aggregate per set with absent columns NULL and the standard bitmask, one grand-total row even over no input.')

def replay(ctx, obj):
    sqlcheck.replay_sql(ctx, obj)

def selftest(ctx):
    return sqlprop.selftest(ctx, [])
