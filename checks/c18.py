"""C18 — Parquet table statistics are sound bounds (PqStats.tla / PqStatsOps.tla / PqStatsTrace.tla).

(M) TLC writes every table of the stratified bound file by file / row group by row group, records the footer the
    Parquet writer leaves for every column chunk and folds the footers the way ParquetTable::compute_statistics does.
    Impl "fixed" meets the contract on all tables; "asbuilt" (the real fold) meets it off the partial-statistics
    shape and TLC must FIND the MinMaxBound counterexample on it; four mutant folds must each be rejected.
(R) A stratified deterministic sample of the TLC-emitted tables is written as REAL Parquet files (int32, int64,
    date32; two columns; two writers; statistics none / chunk / page per file and column) and
    TableProvider::statistics() of the real ParquetTable is judged against the rows read back from the same files:
    by PqStatsTrace (TLC, rank codes) and by an exact-integer judge here (concrete i64); the two must agree.
"""
import concurrent.futures as cf
import copy, json, os, random, re, shutil
import vlib
from vlib import run_tlc, tlc_must_pass, qev, write_ndjson, read_ndjson, validate_trace, NULL

LEVEL = "model_checking"
KNOWN = "C18/minmax-partial-stats"
TOKENS = [-9, -2, 0, 1, 5, 9]
TYPES = ("int32", "int64", "date32")
LIMITS = {"int32": (-2**31, 2**31 - 1), "date32": (-2**31, 2**31 - 1), "int64": (-2**63, 2**63 - 1)}
KNOWN_WRAP = "C18/dense-groupby-width-wraps"
MUTANTS = {"nulls_first_file": "NullCountExactWhenPresent", "wrong_fold": "MinMaxBound",
           "rowcount_heuristic": "RowCountExact", "stale_cache": "RowCountExact"}
LAYOUTS = {"quick": [(1,), (2,), (1, 1), (2, 1), (1, 2), (2, 2)], "thorough": [(1,), (2,), (1, 1), (2, 1), (1, 2), (2, 2)]}
STMTS = (("q1", "SELECT COUNT(*), COUNT(c), MIN(c), MAX(c) FROM t"), ("q2", "SELECT c, COUNT(*) FROM t GROUP BY c"),
         ("q3", "SELECT COUNT(*) FROM t x JOIN t y ON x.c = y.c AND x.d = y.d"))


# ------------------------------------------------------------------ codes
def conc(ty, tok):
    return None if tok == NULL else LIMITS[ty][0] if tok == -9 else LIMITS[ty][1] if tok == 9 else tok


def code(ty, v):
    """order-preserving 32-bit code: token of rank r -> 2r, anything else the odd number between its neighbours"""
    if v is None:
        return NULL
    below = 0
    for r, t in enumerate(TOKENS):
        c = conc(ty, t)
        if c == v:
            return 2 * r
        if c < v:
            below += 1
    return 2 * below - 1


def flat(files):
    return [v for f in files for g in f for v in g]


# ------------------------------------------------------------------ the two judges
def opaque(ft):
    return ft["has_mm"] == 0 and ft["rows"] > 0 and (ft["has_stats"] == 0 or ft["has_nulls"] == 0 or ft["nulls"] < ft["rows"])


def partial(foot):
    ch = [g for f in foot for g in f]
    return any(g["has_stats"] == 1 and g["has_mm"] == 1 for g in ch) and any(opaque(g) for g in ch)


def bound_ok(vals, rep):
    nn = [v for v in vals if v is not None]
    return not (rep["has_min"] and any(v < rep["min"] for v in nn)) and not (rep["has_max"] and any(v > rep["max"] for v in nn))


def judge(r):
    """Exact-integer re-statement of PqStatsTrace!Verdict on the concrete i64 values."""
    v = {"rows": 0, "nulls": 0, "bound": 0, "panic": 1 if r["stats_panic"] else 0, "known": 0}
    if v["panic"]:
        return v
    only_known = True
    for o in r["obs"]:
        if not o["some"]:
            continue
        for k, c in enumerate(r["cols"]):
            vals = flat(c["truth"])
            rep = o["reps"][k]
            if o["row_count"] != len(vals):
                v["rows"] = 1
            if not rep["present"]:
                continue
            if rep["has_nulls"] and rep["null_count"] != sum(1 for x in vals if x is None):
                v["nulls"] = 1
            if not bound_ok(vals, rep):
                v["bound"] = 1
                vis = [x for f, ff in zip(c["truth"], c["foot"]) for g, ft in zip(f, ff) if ft["has_stats"] == 1 for x in g]
                if not (partial(c["foot"]) and bound_ok(vis, rep)):
                    only_known = False
    if v["bound"] and not v["rows"] and not v["nulls"] and only_known:
        v["known"] = 1
    return v


def is_bad(v):
    return bool(v["rows"] or v["nulls"] or v["bound"] or v["panic"])


def trace_line(r):
    ty = r["ty"]

    def cfoot(ft):
        return {"rows": ft["rows"], "has_stats": ft["has_stats"], "has_nulls": ft["has_nulls"], "nulls": ft["nulls"], "has_mm": ft["has_mm"],
                "min": code(ty, ft["min"]) if ft["has_mm"] else 0, "max": code(ty, ft["max"]) if ft["has_mm"] else 0}

    def crep(rep):
        if not rep["present"]:
            return {"present": 0, "has_nulls": 0, "null_count": 0, "has_min": 0, "min": 0, "has_max": 0, "max": 0}
        return {"present": 1, "has_nulls": rep["has_nulls"], "null_count": rep["null_count"] if rep["has_nulls"] else 0,
                "has_min": rep["has_min"], "min": code(ty, rep["min"]) if rep["has_min"] else 0,
                "has_max": rep["has_max"], "max": code(ty, rep["max"]) if rep["has_max"] else 0}
    return {"id": r["id"], "panic": 1 if r["stats_panic"] else 0,
            "cols": [{"files": [[[code(ty, x) for x in g] for g in f] for f in c["truth"]],
                      "flags": [1 if x else 0 for x in c["flags"]], "foot": [[cfoot(g) for g in f] for f in c["foot"]]} for c in r["cols"]],
            "obs": [{"some": o["some"], "row_count": o["row_count"] if o["some"] else 0,
                     "reps": [crep(x) for x in o["reps"]] if o["some"] else []} for o in r["obs"]]}


def tlc_judge(ctx, recs, name):
    """PqStatsTrace over the recorded tables: {index: verdict} of the lines TLC calls BAD, drift lines."""
    path = os.path.join(ctx.work, f"{name}.ndjson")
    write_ndjson(path, [trace_line(r) for r in recs])
    ok, rej, res = validate_trace("PqStatsTrace", "PqStatsTrace.cfg", path, timeout=3000, heap="6g", tag=f"C18-{name}")
    ctx.tlc_stats(res, f"PqStatsTrace over {len(recs)} real tables (statistics() vs the rows read back from the same files)")
    if not ok:
        vlib.log(res.out[-3000:])
        raise vlib.ToolError(f"PqStatsTrace could not evaluate line {rej.get('line')} of {name}")
    acc = [r for k, r in res.prints if k == "ACCEPT"]
    if not acc or acc[0]["n"] != len(recs):
        raise vlib.ToolError(f"PqStatsTrace evaluated {acc[0]['n'] if acc else 0} of {len(recs)} lines")
    bad = {p["line"] - 1: {k: p[k] for k in ("rows", "nulls", "bound", "panic", "known")} for k, p in res.prints if k == "BAD"}
    drift = {p["line"] - 1: p for k, p in res.prints if k == "DRIFT"}
    return bad, drift


# ------------------------------------------------------------------ real runs
def normalise(raw):
    """harness record -> the record both judges read (concrete values only)."""
    r = {k: raw.get(k) for k in ("id", "ty", "writer", "tags", "nfiles", "stats_panic", "stats_err", "write_ok", "scan_eq", "scan_err",
                                 "q1", "q2", "q3", "extra_cols", "total_byte_size", "file_bytes")}
    r["cols"] = [{"name": c["name"], "flags": c["flags"], "truth": c["truth"], "foot": c["foot"]} for c in raw["cols"]]
    r["obs"] = []
    for o in raw.get("obs", []):
        if not o["some"]:
            r["obs"].append({"some": 0})
            continue
        reps = []
        for c in raw["cols"]:
            x = o["cols"].get(c["name"])
            reps.append({"present": 0} if x is None else
                        {"present": 1, "has_nulls": x["has_nulls"], "null_count": x["null_count"], "has_min": x["has_min"], "min": x["min"],
                         "has_max": x["has_max"], "max": x["max"], "ndv_est": x["ndv_est"]})
        r["obs"].append({"some": 1, "row_count": o["row_count"], "reps": reps})
    # the harness' own rank codes must be the ones computed here
    for c in raw["cols"]:
        if c["truth_code"] != [[[code(r["ty"], x) for x in g] for g in f] for f in c["truth"]]:
            raise vlib.ToolError(f"rank codes of harness and check differ on case {r['id']}")
    return r


def run_real(ctx, cases, tag, threads=4):
    inp = os.path.join(ctx.work, f"{tag}.in.ndjson")
    outp = os.path.join(ctx.work, f"{tag}.out.ndjson")
    files = os.path.join(ctx.work, f"{tag}.files")
    shutil.rmtree(files, ignore_errors=True)
    write_ndjson(inp, cases)
    try:
        qev(["pqstats-replay", inp, outp, files, str(threads)], timeout=3400)
    finally:
        shutil.rmtree(files, ignore_errors=True)
    raws = read_ndjson(outp)
    if len(raws) != len(cases) * len(TYPES):
        raise vlib.ToolError("pqstats-replay returned a different number of records")
    recs = [normalise(x) for x in raws]
    for r in recs:
        if r["write_ok"] != 1:
            raise vlib.ToolError(f"case {r['id']} ({r['ty']}): the files read back differ from what was to be written (harness)")
        if r["stats_err"] and not r["stats_panic"]:
            raise vlib.ToolError(f"case {r['id']} ({r['ty']}): ParquetTable::try_new failed on valid files: {r['stats_err']}")
    return recs


def case_of(r, cases_by_id):
    return cases_by_id[r["id"]] | {"ty": r["ty"]}


def describe(r, v):
    out = []
    for o in r["obs"]:
        if not o.get("some"):
            continue
        for c, rep in zip(r["cols"], o["reps"]):
            vals = flat(c["truth"])
            if o["row_count"] != len(vals):
                out.append(f"row_count {o['row_count']} but the files hold {len(vals)} rows")
            if rep["present"] and rep["has_nulls"] and rep["null_count"] != sum(1 for x in vals if x is None):
                out.append(f"column {c['name']}: null_count {rep['null_count']} but {sum(1 for x in vals if x is None)} rows are NULL")
            if rep["present"] and not bound_ok(vals, rep):
                nn = [x for x in vals if x is not None]
                out.append(f"column {c['name']} ({r['ty']}): reported min={rep['min']} max={rep['max']} but the files hold values {min(nn)}..{max(nn)}"
                           f" (statistics flags per file {c['flags']})")
    if v["panic"]:
        out.append("statistics() panicked: " + str(r["stats_err"])[:120])
    return "; ".join(sorted(set(out)))


def width_wraps(r):
    """shape of C18/dense-groupby-width-wraps: int64 key column, min/max in every chunk, overall MIN..MAX"""
    ch = [g for f in r["cols"][0]["foot"] for g in f]
    return (r["ty"] == "int64" and ch and all(g["has_stats"] == 1 and g["has_mm"] == 1 for g in ch)
            and min(g["min"] for g in ch) == LIMITS["int64"][0] and max(g["max"] for g in ch) == LIMITS["int64"][1])


def answers_truth(r):
    c, d = flat(r["cols"][0]["truth"]), flat(r["cols"][1]["truth"])
    nn = [x for x in c if x is not None]
    q1 = [[len(c), len(nn), min(nn) if nn else None, max(nn) if nn else None]]
    groups = {}
    for x in c:
        groups[x] = groups.get(x, 0) + 1
    q2 = sorted(([k, n] for k, n in groups.items()), key=lambda p: (p[0] is not None, p[0] or 0))
    pairs = {}
    for x, y in zip(c, d):
        if x is not None and y is not None:
            pairs[(x, y)] = pairs.get((x, y), 0) + 1
    q3 = [[sum(n * n for n in pairs.values())]]
    return {"q1": q1, "q2": q2, "q3": q3}


def check_records(ctx, recs, cases_by_id, name):
    """Contract verdicts (TLC and exact integers must agree), statements (panic = data), fidelity notes."""
    bad, drift = tlc_judge(ctx, recs, name)
    n_bad = 0
    for i, r in enumerate(recs):
        pv = judge(r)
        tv = bad.get(i, {"rows": 0, "nulls": 0, "bound": 0, "panic": 0, "known": 0})
        if pv != tv:
            raise vlib.ToolError(f"TLC and the exact-integer judge disagree on record {i} (case {r['id']} {r['ty']}): tlc={tv} python={pv}")
        ctx.add("evaluations")
        any_partial = any(partial(c["foot"]) for c in r["cols"])
        if is_bad(pv):
            n_bad += 1
            why = describe(r, pv)
            if pv["known"] and ctx.is_known(KNOWN):
                ctx.known(KNOWN, {"ty": r["ty"], "why": why, "files": [c["truth"] for c in r["cols"]], "flags": [c["flags"] for c in r["cols"]]})
            else:
                ctx.violation(case_of(r, cases_by_id), why)
        else:
            ctx.add("traces_validated_against_impl")
        # the statements: a panic is data; a wrong answer belongs to the properties that own aggregates / joins
        truth = answers_truth(r)
        for q, sql in STMTS:
            a = r[q]
            if a.get("panic"):
                # the same rows written WITHOUT statistics: only a panic the statistics cause is this property's
                caused = not (a.get("ctl") or {}).get("panic")
                if not caused:
                    ctx.add("foreign_panics")
                    if ctx.cov.get("foreign_panics", 0) <= 3:
                        ctx.notes.append(f"foreign: `{sql}` panics on case {r['id']} ({r['ty']}) with and without footer statistics: {a.get('err')}")
                elif q == "q2" and width_wraps(r) and ctx.is_known(KNOWN_WRAP):
                    ctx.known(KNOWN_WRAP, {"ty": r["ty"], "why": f"`{sql}` panicked: {a.get('err')}", "c": r["cols"][0]["truth"],
                                           "flags": r["cols"][0]["flags"]})
                elif any_partial and ctx.is_known(KNOWN):
                    ctx.known(KNOWN, {"ty": r["ty"], "why": f"`{sql}` panicked on a partially covered table: {a.get('err')}",
                                      "files": [c["truth"] for c in r["cols"]], "flags": [c["flags"] for c in r["cols"]]})
                else:
                    ctx.violation(case_of(r, cases_by_id), f"`{sql}` panicked because of the footer statistics (the same rows written without "
                                  f"statistics are answered) on a table whose reported statistics are {'sound' if not is_bad(pv) else 'unsound'}: {a.get('err')}")
            elif not a.get("ok"):
                ctx.add("statement_errors")
                if ctx.cov.get("statement_errors", 0) <= 3:
                    only = (a.get("ctl") or {}).get("ok") == 1
                    ctx.notes.append(f"foreign: `{sql}` refused on case {r['id']} ({r['ty']})"
                                     f"{' only when the footers carry statistics (the same rows without statistics are answered)' if only else ''}: {a.get('err')}")
            elif a["rows"] != truth[q]:
                if pv["known"] or (any_partial and is_bad(pv)):
                    ctx.add("wrong_answers_on_unsound_bounds")
                    if ctx.cov.get("wrong_answers_on_unsound_bounds", 0) <= 2:
                        ctx.notes.append(f"consequence of {KNOWN}: `{sql}` answered {a['rows'][:4]} instead of {truth[q][:4]} on "
                                         f"{r['ty']} files c={r['cols'][0]['truth']} d={r['cols'][1]['truth']} flags c={r['cols'][0]['flags']} d={r['cols'][1]['flags']}")
                else:
                    ctx.add("foreign_wrong_answers")
                    if ctx.cov.get("foreign_wrong_answers", 0) <= 3:
                        ctx.notes.append(f"foreign (aggregates/joins are other properties'): `{sql}` answered {a['rows'][:4]} instead of {truth[q][:4]} "
                                         f"on case {r['id']} ({r['ty']}), statistics {'sound' if not is_bad(pv) else 'unsound'}")
            else:
                ctx.add("statements_answered_right")
        if r["scan_eq"] != 1:
            ctx.add("foreign_scan_differs")
            if ctx.cov.get("foreign_scan_differs", 0) <= 2:
                ctx.notes.append(f"foreign: scan(None) of case {r['id']} ({r['ty']}) differs from the rows read back with the parquet crate: {r['scan_err']}")
        d = drift.get(i)
        if d:
            for k in ("footer", "fold", "unstable", "silent"):
                if d[k]:
                    ctx.add(f"fidelity_drift_{k}")
                    if ctx.cov.get(f"fidelity_drift_{k}", 0) <= 2:
                        ctx.notes.append(f"spec drift (fidelity only): {k} on case {r['id']} ({r['ty']}): "
                                         + {"footer": "the real footers differ from the modelled writer",
                                            "fold": "statistics() differs from the modelled as-built fold of the real footers",
                                            "unstable": "statistics() gave different answers for the same files",
                                            "silent": "statistics() returned None"}[k])
    return n_bad


# ------------------------------------------------------------------ inputs
def shape(t):
    return tuple(tuple(len(g) for g in f) for f in t["files"])


def feats(t):
    v = flat(t["files"])
    return (tuple(t["layout"]), tuple(t["flags"]), t["partial"], int(NULL in v), int(-9 in v or 9 in v), int(any(len(g) == 0 for f in t["files"] for g in f)))


def build_cases(tables, rng, per_stratum, cap):
    """Stratified deterministic sample; a case = two TLC-emitted tables of the same shape as columns c and d."""
    tables.sort(key=lambda t: json.dumps(t, sort_keys=True))
    strata, by_shape = {}, {}
    for t in tables:
        strata.setdefault(feats(t), []).append(t)
        by_shape.setdefault(shape(t), []).append(t)
    picked = []
    for key in sorted(strata):
        lst = strata[key]
        picked += rng.sample(lst, min(per_stratum, len(lst)))
    if len(picked) > cap:
        picked = rng.sample(picked, cap)
    cases = []
    for i, t in enumerate(picked):
        mate = rng.choice(by_shape[shape(t)])
        cols = []
        for tab in (t, mate):
            files = []
            for f in tab["files"]:
                rgs = []
                for g in f:
                    g = list(g)
                    rng.shuffle(g)
                    rgs.append(g)
                files.append(rgs)
            cols.append({"files": files, "flags": [rng.choice([1, 2]) if x else 0 for x in tab["flags"]],
                         "model_asbuilt": tab["asbuilt"], "model_fixed": tab["fixed"], "model_partial": tab["partial"]})
        cases.append({"id": i + 1, "writer": rng.choice([0, 1]), "layout": t["layout"], "cols": cols, "tags": []})
    return cases


def handmade(base):
    """Shapes outside the model's bound: three files, longer row groups, the documented join consequence."""
    N = NULL
    mk = lambda i, c, fc, d, fd, w=0: {"id": base + i, "writer": w, "layout": [len(f) for f in c], "tags": ["handmade"],
                                       "cols": [{"files": c, "flags": fc}, {"files": d, "flags": fd}]}
    return [
        mk(1, [[[1]], [[0]]], [1, 1], [[[0]], [[1]]], [1, 0]),                       # bound on d trusted by the join key packing
        mk(2, [[[0, 1]], [[5, N]]], [1, 0], [[[N, N]], [[N, N]]], [0, 1]),
        mk(3, [[[0], [1]], [[5]], [[-9, 9, N]]], [2, 0, 1], [[[1], [1]], [[1]], [[0, 0, 0]]], [1, 1, 1], 1),
        mk(4, [[[x % 7 - 2 if x % 5 else N for x in range(40)]], [[9] * 3 + [N] * 3]], [1, 2], [[[x for x in range(40)]], [[-9] * 6]], [2, 1], 1),
        mk(5, [[[N, N], [N]], [[N]]], [1, 1], [[[N, 0], [5]], [[N]]], [0, 0]),
        mk(6, [[[], []], [[]]], [1, 0], [[[], []], [[]]], [1, 1]),
    ]


def model_rep_codes(col, ty):
    """The model's as-built Reported (tokens) in the rank codes of a type, for the python-side fidelity count."""
    m = col.get("model_asbuilt")
    if m is None:
        return None
    return {"row_count": m["row_count"], "has_nulls": m["has_nulls"], "null_count": m["null_count"] if m["has_nulls"] else 0, "has_mm": m["has_mm"],
            "min": conc(ty, m["min"]) if m["has_mm"] else None, "max": conc(ty, m["max"]) if m["has_mm"] else None}


# ------------------------------------------------------------------ run
def kill_matrix(out):
    """PqStats_kill.cfg runs with -continue: {impl: {invariant: number of rejected tables}} from every reported violation."""
    parts = re.split(r"Error: Invariant (\w+) is violated\.", out)
    m, first = {}, {}
    for inv, body in zip(parts[1::2], parts[2::2]):
        i = re.search(r'/\\ impl = "(\w+)"', body)
        if not i:
            continue
        d = m.setdefault(i.group(1), {})
        d[inv] = d.get(inv, 0) + 1
        first.setdefault(i.group(1), body[:6000])
    return m, first


def model_runs(ctx, quick):
    t = ctx.tier
    allimpl = 'all six folds on the small universe, -continue: "fixed" is never rejected, "asbuilt" only by MinMaxBound, every mutant by some invariant'
    runs = [(f"PqStats_{t}.cfg", "fixed fold meets RowCountExact / NullCountExactWhenPresent / MinMaxBound on ALL tables; every table emitted", "pass", 3 if quick else 6),
            (f"PqStats_asbuilt_ok_{t}.cfg", "as-built fold (the real code) meets the contract on every table off the partial-statistics shape", "pass", 3 if quick else 6),
            ("PqStats_kill.cfg", allimpl, "kill", 2)]
    if not quick:
        runs.append(("PqStats_asbuilt_cex.cfg", "as-built fold, partial statistics allowed: TLC finds the MinMaxBound counterexample", "MinMaxBound", 1))

    def one(r):
        cfg, label, mode, wk = r
        return r, run_tlc("PqStats", cfg, workers=wk, timeout=3400, heap="6g" if mode == "pass" else "2g", tag="C18-" + cfg[:-4],
                          coverage=(mode == "pass" and not quick), extra=(["-continue"] if mode == "kill" else None))
    with cf.ThreadPoolExecutor(max_workers=4) as ex:
        results = list(ex.map(one, runs))
    tables = None
    for (cfg, label, mode, wk), res in results:
        ctx.tlc_stats(res, f"{cfg}: {label}")
        if mode == "pass":
            tlc_must_pass(res, cfg)
            if not quick:
                for act in ("OpenFile", "WriteRowGroup", "Report"):
                    if res.coverage.get(act, 0) == 0:
                        raise vlib.ToolError(f"{cfg}: action {act} never taken")
            if res.cases:
                tables = res.cases
        elif mode == "kill":
            if res.error or "0 states left on queue" not in res.out:
                raise vlib.ToolError(f"TLC did not complete {cfg}: {str(res.error)[:300]}")
            m, first = kill_matrix(res.out)
            ctx.set("kill_matrix", m)
            if "fixed" in m:
                raise vlib.ToolError(f"{cfg}: the repaired fold is rejected: {m['fixed']}")
            if set(m.get("asbuilt", {})) != {"MinMaxBound"}:
                raise vlib.ToolError(f"{cfg}: expected the as-built fold to be rejected by MinMaxBound and nothing else, got {m.get('asbuilt')} (spec drift)")
            for mut, inv in MUTANTS.items():
                if inv not in m.get(mut, {}):
                    raise vlib.ToolError(f"{cfg}: mutant fold {mut} is not rejected by {inv}: {m.get(mut)} (vacuous invariant)")
            ctx.set("model_reproduces_partial_stats_defect", True)
            ctx.set("model_counterexample_asbuilt", [l.strip() for l in first["asbuilt"].splitlines()
                                                     if l.startswith(("/\\ files", "/\\ flags", "/\\ rep ", "/\\ pc"))][:28][-4:])
        else:
            if res.error:
                raise vlib.ToolError(f"TLC error in {cfg}: {res.error[:300]}")
            if res.violated != mode:
                raise vlib.ToolError(f"{cfg}: expected TLC to reject with {mode}, got {res.violated} (spec drift / vacuous invariant)")
    if not tables or len(tables) < 10000:
        raise vlib.ToolError(f"the model emitted only {len(tables or [])} tables")
    return tables


def run(ctx):
    rng = random.Random(ctx.seed)
    quick = ctx.tier == "quick"
    tables = model_runs(ctx, quick)
    ctx.set("tlc_tables", len(tables))
    for lay in LAYOUTS[ctx.tier]:
        if not any(tuple(t["layout"]) == lay for t in tables):
            raise vlib.ToolError(f"layout {lay} never emitted by the model")
    cases = build_cases(tables, rng, 3 if quick else 50, 600 if quick else 12000)
    cases += handmade(len(cases))
    cases_by_id = {c["id"]: {k: c[k] for k in ("id", "writer", "cols", "tags")} for c in cases}
    recs = run_real(ctx, [{"id": c["id"], "writer": c["writer"], "tags": c["tags"],
                           "cols": [{"files": x["files"], "flags": x["flags"]} for x in c["cols"]]} for c in cases],
                    "tables", threads=4 if quick else 8)
    check_records(ctx, recs, cases_by_id, "trace")
    # ---- vacuity guards + evidence on what reached the real code
    seen = {"layouts": set(), "types": set(), "writers": set(), "flag_levels": set(), "flag_classes": set()}
    f = {"null_rows": 0, "lo_boundary": 0, "hi_boundary": 0, "empty_row_group": 0, "all_null_chunk_with_stats": 0, "partial_shape": 0,
         "mixed_flags_sound": 0, "null_count_reported": 0, "null_count_absent": 0, "minmax_reported": 0, "minmax_absent": 0, "model_equals_real": 0}
    nontriv = set()
    by_case = {c["id"]: c for c in cases}
    for r in recs:
        seen["types"].add(r["ty"]); seen["writers"].add(r["writer"])
        seen["layouts"].add(tuple(len(fl) for fl in r["cols"][0]["truth"]))
        lo, hi = LIMITS[r["ty"]]
        for k, c in enumerate(r["cols"]):
            vals = flat(c["truth"])
            seen["flag_levels"].update(c["flags"])
            seen["flag_classes"].add("all" if all(c["flags"]) else "none" if not any(c["flags"]) else "mixed")
            f["null_rows"] += int(None in vals); f["lo_boundary"] += int(lo in vals); f["hi_boundary"] += int(hi in vals)
            f["empty_row_group"] += int(any(len(g) == 0 for fl in c["truth"] for g in fl))
            f["all_null_chunk_with_stats"] += int(any(ft["has_stats"] and ft["rows"] and ft["nulls"] == ft["rows"] for fl in c["foot"] for ft in fl))
            p = partial(c["foot"])
            f["partial_shape"] += int(p)
            f["mixed_flags_sound"] += int(not p and any(c["flags"]) and not all(c["flags"]))
            if r["obs"] and r["obs"][0].get("some") and r["obs"][0]["reps"][k]["present"]:
                rep = r["obs"][0]["reps"][k]
                f["null_count_reported" if rep["has_nulls"] else "null_count_absent"] += 1
                f["minmax_reported" if rep["has_min"] and rep["has_max"] else "minmax_absent"] += 1
                m = model_rep_codes(by_case[r["id"]]["cols"][k], r["ty"])
                if m is not None:
                    real = {"row_count": r["obs"][0]["row_count"], "has_nulls": rep["has_nulls"], "null_count": rep["null_count"] if rep["has_nulls"] else 0,
                            "has_mm": int(bool(rep["has_min"] and rep["has_max"])), "min": rep["min"], "max": rep["max"]}
                    if real == m:
                        f["model_equals_real"] += 1
                    else:
                        ctx.add("fidelity_model_reported_differs")
                        if ctx.cov.get("fidelity_model_reported_differs", 0) <= 2:
                            ctx.notes.append(f"spec drift (fidelity only): PqStats.tla's as-built Reported {m} vs real {real} on case {r['id']} ({r['ty']})")
            nrg = sum(len(fl) for fl in c["truth"])
            if nrg >= 2 and (None in vals or lo in vals or hi in vals):
                nontriv.add(vlib.chash([r["ty"], c["truth"], c["flags"]]))
    ctx.set("real_features", f)
    ctx.set("distinct_nontrivial", len(nontriv))
    for lay in LAYOUTS[ctx.tier]:
        if lay not in seen["layouts"]:
            raise vlib.ToolError(f"layout {lay} never reached the real code")
    if seen["types"] != set(TYPES) or seen["writers"] != {0, 1} or seen["flag_levels"] != {0, 1, 2} or seen["flag_classes"] != {"all", "none", "mixed"}:
        raise vlib.ToolError(f"a type / writer / statistics level / flag class never reached the real code: {seen}")
    for k, n in f.items():
        if n == 0:
            raise vlib.ToolError(f"no replayed table exercised {k}")
    for r in (recs[5], recs[len(recs) // 2], recs[-4]):
        ctx.sample({"ty": r["ty"], "cols": [{"files": c["truth"], "stats_flags": c["flags"]} for c in r["cols"]], "statistics": r["obs"][0] if r["obs"] else None})
    ctx.set("exhaustive", True)
    ctx.set("rule", "TLC (PqStats.tla) builds EVERY table of the stratified bound (<=2 files x <=2 row groups; full token domain {NULL,-2,0,1,5,LO,HI} with "
            "<=3 (thorough; quick <=2 for two row groups) rows per row group for layouts of <=2 row groups, reduced domains for 3 and 4 row groups; statistics "
            "on/off per file), records the writer's footer per chunk and folds them as compute_statistics does. A deterministic stratified sample (by layout, "
            "flags, partial shape, NULL / boundary / empty-row-group presence) is paired up into two-column tables and written as real Parquet files of "
            "int32, int64 and date32 (LO/HI = the type's MIN/MAX) by SerializedFileWriter or ArrowWriter with statistics None/Chunk/Page per file and column; "
            "statistics() (twice + a fresh provider) is judged against the rows read back from the same files by PqStatsTrace (TLC) and by exact integers. "
            "distinct_nontrivial = distinct (type, column content, flags) with >=2 row groups and at least one NULL or MIN/MAX value.")
    ctx.assumptions += ["TLC judges order-preserving rank codes of the concrete i64 values (32-bit integers in TLC); the exact-integer judge in the check "
                        "re-states the same contract on the concrete values and must agree line by line",
                        "ndv_est, total_byte_size, min_f64/max_f64, ndv_str are estimates and carry no obligation here; that no estimate decides an answer is C03's",
                        "the truth is what the parquet crate reads back from the written files (checked equal to what was to be written); the engine's scan(None) "
                        "is compared with it as a foreign observation only",
                        "the writer's statistics flag is per file and column (WriterProperties), as Parquet writers offer it; page-level and chunk-level "
                        "statistics both count as 'statistics present'"]


def replay(ctx, obj):
    c = dict(obj["case"])
    c.pop("ty", None)
    recs = run_real(ctx, [{"id": c["id"], "writer": c.get("writer", 0), "tags": c.get("tags", []),
                           "cols": [{"files": x["files"], "flags": x["flags"]} for x in c["cols"]]}], "replay", threads=1)
    check_records(ctx, recs, {c["id"]: c}, "replay")
    ctx.set("distinct_nontrivial", 1)
    ctx.sample({"ty": recs[0]["ty"], "statistics": recs[0]["obs"]})


def selftest(ctx):
    N = NULL
    base = [{"id": 1, "writer": 0, "tags": [], "cols": [{"files": [[[0, N], [5]], [[1, 9, N]]], "flags": [1, 2]}, {"files": [[[N, N], [-9]], [[-2, 0, 1]]], "flags": [1, 1]}]},
            {"id": 2, "writer": 1, "tags": [], "cols": [{"files": [[[0, 1]], [[5, N]]], "flags": [1, 0]}, {"files": [[[1, 1]], [[1, 1]]], "flags": [1, 1]}]},
            {"id": 3, "writer": 0, "tags": [], "cols": [{"files": [[[0, 5]], [[1, N]]], "flags": [1, 0]}, {"files": [[[N, N]], [[5, 1]]], "flags": [0, 1]}]}]
    recs = run_real(ctx, base, "selftest", threads=1)
    bad, _ = tlc_judge(ctx, recs, "selftest-orig")
    missed = 0
    for i, r in enumerate(recs):
        pv = judge(r)
        tv = bad.get(i, {"rows": 0, "nulls": 0, "bound": 0, "panic": 0, "known": 0})
        want_known = r["id"] == 2     # case 2 IS the known finding; 1 and 3 (stats-less file inside the bound) are sound
        if pv != tv or is_bad(pv) != want_known or pv["known"] != int(want_known):
            print(f"selftest: unmodified record {r['id']} {r['ty']} judged tlc={tv} exact={pv}, expected {'known finding' if want_known else 'accept'}")
            missed += 1
    sound = [r for r in recs if r["id"] == 1]
    shaped = [r for r in recs if r["id"] == 3]
    muts = []
    for r in sound:
        t = copy.deepcopy(r); t["obs"][0]["row_count"] += 1
        muts.append((f"{r['ty']}: row_count + 1", t, "rows"))
        t = copy.deepcopy(r); t["obs"][0]["reps"][0]["null_count"] -= 1
        muts.append((f"{r['ty']}: null_count of c one too low", t, "nulls"))
        t = copy.deepcopy(r); t["obs"][0]["reps"][1]["null_count"] += 1
        muts.append((f"{r['ty']}: null_count of d one too high", t, "nulls"))
        t = copy.deepcopy(r); t["obs"][0]["reps"][0]["min"] = 1
        muts.append((f"{r['ty']}: min of c raised above the value 0", t, "bound"))
        t = copy.deepcopy(r); t["obs"][0]["reps"][0]["max"] = LIMITS[r["ty"]][1] - 1
        muts.append((f"{r['ty']}: max of c lowered to MAX-1", t, "bound"))
        t = copy.deepcopy(r); t["obs"][0]["reps"][1]["min"] = LIMITS[r["ty"]][0] + 1
        muts.append((f"{r['ty']}: min of d raised to MIN+1", t, "bound"))
        t = copy.deepcopy(r)
        for c in t["cols"]:
            c["truth"].pop(); c["foot"].pop(); c["flags"].pop()
        muts.append((f"{r['ty']}: a file dropped from the truth", t, "rows"))
        t = copy.deepcopy(r); t["obs"].append(copy.deepcopy(t["obs"][0])); t["obs"][1]["reps"][0] = {"present": 1, "has_nulls": 1, "null_count": 0, "has_min": 1, "min": 1, "has_max": 1, "max": 5, "ndv_est": 2}
        muts.append((f"{r['ty']}: the second call of statistics() answers for another table", t, "nulls"))
    for r in shaped[:1]:
        # partially covered column, but the bound is broken by a row of a chunk WITH statistics: not the known finding
        t = copy.deepcopy(r); t["obs"][0]["reps"][0]["max"] = 4
        muts.append((f"{r['ty']}: partial statistics, max below a value of a statistics-bearing chunk (must NOT pass as the known finding)", t, "bound"))
    mbad, _ = tlc_judge(ctx, [t for _, t, _ in muts], "selftest-mut")
    for i, (why, t, field) in enumerate(muts):
        pv = judge(t)
        tv = mbad.get(i)
        okk = tv is not None and tv[field] == 1 and pv[field] == 1 and tv == pv and pv["known"] == 0
        print(f"selftest: {'rejected' if okk else 'ACCEPTED (binding lost)'}: {why}  [tlc={tv}, exact={pv}]")
        missed += 0 if okk else 1
    return 1 if missed else 0
