"""C29 — no SQL input crashes or hangs the engine (spec/SqlFuzz.tla, spec/SqlFuzzTrace.tla).

(M) TLC explores SqlFuzz.tla exhaustively: every statement reachable from the first seeds by <= 2 token
    mutations (and from every well-/ill-typed seed by 1), with the engine machine Idle -> Running ->
    Returned(ok|err); NoCrash / TypeOK / Returns are invariants.
(R) The reached statements, the seeds (deep nesting and huge literals as <REP:n:text> macros) and the frozen
    list corpus/fuzz/*.ndjson.gz (TLC -simulate walks, mutants of the frozen SQL corpus with their own tables)
    are executed by child processes (`qev fuzz-worker`: main thread, 8 MiB stack, address-space limit,
    per-statement deadline, panic hook) against three registered schemas.
(V) One trace line per (statement, schema) with the observed outcome is validated by TLC against
    SqlFuzzTrace.tla; only ok / err are steps of the engine machine.

DETERMINISTIC: no fresh random statements.  VERIF_SEED only selects which residue class of the frozen list
the quick tier runs.  Inputs on which the unchanged tree panics / aborts / hangs are listed by exact text
hash in findings/fuzz/C29.json, grouped by class, one open line `C29/<class>` per class in
known_findings.jsonl; a bad outcome on any other input is a VIOLATION."""
import collections
import json
import os

import vlib
import fuzzlib as F
from vlib import run_tlc, tlc_must_pass

LEVEL = "exploration"
DEADLINE = 20
RERUN_DEADLINE = 60
QUICK_TARGET = 3000
THOROUGH_MOD = {"tlc-d2": 4, "tlc-d1": 2}


def tlc_explore(ctx, cfg, what):
    sp = os.path.join(ctx.work, "seeds.ndjson")
    if not os.path.exists(sp):
        vlib.write_ndjson(sp, F.all_seeds())
    res = run_tlc("SqlFuzz", cfg, workers=6, timeout=3000, heap="8g", env={"C29_SEEDS": sp}, tag=f"C29-{cfg[8:-4]}")
    tlc_must_pass(res, what)
    ctx.tlc_stats(res, what)
    return sorted({F.untok(c["toks"]) for c in res.cases})


def listed_index():
    fnd = F.load_findings()
    idx = {}
    for cls, e in fnd["classes"].items():
        for h in e["inputs"]:
            idx[h] = cls
    return fnd, idx


def select(ctx, corpus, tlc_texts, idx):
    """statements to execute in this tier (a deterministic function of tier, VERIF_SEED and the frozen files)"""
    frozen = F.load_hashes()
    chosen = collections.OrderedDict()
    fresh = 0
    skipped = 0
    for t in tlc_texts:
        h = F.shash(t)
        if frozen.get(h) == "dropped":
            skipped += 1        # left out at freeze time: needs seconds on the unchanged tree (deadline verdict would depend on load)
        elif h in frozen:
            chosen[h] = {"h": h, "sql": t, "src": frozen[h]}
        else:  # reached by TLC but not frozen (spec or seeds changed): run it, strictly
            chosen[h] = {"h": h, "sql": t, "src": "tlc-fresh"}
            fresh += 1
    if ctx.tier == "thorough":
        # everything frozen, except that the two large TLC families are run one residue class (THOROUGH_MOD) per run
        out = collections.OrderedDict()
        for c in list(chosen.values()) + corpus:
            m = THOROUGH_MOD.get(c["src"])
            if m and int(c["h"], 16) % m != ctx.seed % m and c["h"] not in idx:
                continue
            out.setdefault(c["h"], c)
        ctx.set("tlc_statements_skipped_as_dropped_at_freeze", skipped)
        return list(out.values()), fresh
    # quick: a residue class of the TLC statements + of the frozen list, every light seed, 2 listed inputs per class
    tl = list(chosen.values())
    m = max(1, len(tl) * 2 // QUICK_TARGET)
    r = ctx.seed % m
    out = collections.OrderedDict((c["h"], c) for c in tl if int(c["h"], 16) % m == r)
    rest = [c for c in corpus if c["h"] not in chosen and c["src"] != "seed"]
    m2 = max(1, len(rest) * 3 // QUICK_TARGET)
    r2 = ctx.seed % m2
    for c in rest:
        if int(c["h"], 16) % m2 == r2 and c["h"] not in idx:
            out.setdefault(c["h"], c)
    for c in corpus:
        if c["src"] == "seed" and c["h"] not in idx and not any(f"<REP:{n}:" in c["sql"] for n in (10000, 100000)):
            out.setdefault(c["h"], c)
    byh2 = {c["h"]: c for c in corpus}
    for cls, e in F.load_findings()["classes"].items():
        # the cheapest listed inputs of every class (2; 1 for hangs, each of which costs a deadline)
        hs = sorted((h for h in e["inputs"] if h in byh2), key=lambda h: (e.get("ms", {}).get(h, 0), h))
        for h in hs[:1 if cls.startswith("hang") else 2]:
            out.setdefault(h, byh2[h])
    ctx.set("tlc_statements_skipped_as_dropped_at_freeze", skipped)
    return list(out.values()), fresh


def site_class(fnd, rec):
    """classes whose panic is NOT a function of the input alone (findings: nondeterministic_classes) are matched
    by panic site: file of the panic location + message prefix"""
    if rec.get("k") != "panic":
        return None
    for cls, sig in fnd.get("nondeterministic_classes", {}).items():
        loc = rec.get("loc", "")
        if os.path.basename(loc.split(":")[0]) == sig["site"] and rec.get("msg", "").startswith(sig["msg_prefix"]):
            return cls
    return None


def outcome_of(recs):
    """worst outcome over the schemas of one statement"""
    rank = {"ok": 0, "err": 1, "panic": 2, "abort": 3, "hang": 4}
    return max(recs, key=lambda r: rank.get(r["k"], 5))


def run(ctx):
    fnd, idx = listed_index()
    corpus = F.load_corpus(small_only=(ctx.tier == "quick"))
    if len(corpus) < 1000:
        raise vlib.ToolError("frozen statement list corpus/fuzz/*.ndjson.gz missing or too small (run lib/fuzzgen.py)")
    texts = tlc_explore(ctx, f"SqlFuzz_{ctx.tier}.cfg", "SqlFuzz: all statements within 2 token mutations of the first seeds x engine machine; NoCrash, TypeOK, Returns")
    if ctx.tier == "thorough":
        texts = sorted(set(texts) | set(tlc_explore(ctx, "SqlFuzz_d1.cfg", "SqlFuzz: all single-token mutants of every well-/ill-typed seed")))
    if len(texts) < 10000:
        raise vlib.ToolError(f"SqlFuzz reached only {len(texts)} statements")
    stmts, fresh = select(ctx, corpus, texts, idx)
    ctx.set("tlc_statements", len(texts))
    ctx.set("tlc_statements_not_in_frozen_list", fresh)
    if fresh:
        ctx.notes.append(f"{fresh} statements reached by TLC are not in the frozen list (spec/seeds changed since lib/fuzzgen.py ran); executed and judged strictly")
    res = F.run_all(ctx, stmts, deadline=DEADLINE, procs=4, tag="run")
    kinds = collections.Counter()
    errcls = collections.Counter()
    bysrc = collections.Counter()
    nontrivial = set()
    trace = []
    suspects = []
    for s in stmts:
        recs = res.get(s["h"], [])
        if not recs:
            raise vlib.ToolError(f"no record for statement {s['h']} ({s['sql'][:80]!r})")
        bysrc[s["src"].split(":")[0]] += 1
        for r in recs:
            ctx.add("evaluations")
            kinds[r["k"]] += 1
            if r["k"] == "err":
                errcls[r.get("cls", "?")] += 1
            if r["k"] == "ok" or (r["k"] == "err" and r.get("cls") != "Parse"):
                nontrivial.add(s["h"])
        worst = outcome_of(recs)
        if worst["k"] in ("ok", "err"):
            trace.append({"h": s["h"], "ks": [r["k"] for r in recs]})
            continue
        cls = idx.get(s["h"]) or site_class(fnd, worst)
        if cls and ctx.is_known(f"C29/{cls}"):
            ctx.known(f"C29/{cls}", {"sql": s["sql"][:200], "schema": worst["s"], "outcome": worst["k"],
                                     "msg": worst.get("msg", worst.get("stderr", ""))[:160]})
            ctx.add("listed_inputs_still_failing")
            continue
        suspects.append((s, worst))
    # a bad outcome on an unlisted input: re-run it alone (fresh process, longer deadline) before judging —
    # a deadline miss or a SIGKILL under machine pressure must reproduce
    for n, (s, worst) in enumerate(suspects[:40]):
        again = F.run_one(ctx, s, RERUN_DEADLINE, tag=f"again{n}")
        if not again:
            raise vlib.ToolError(f"re-run of {s['h']} produced no record")
        w2 = outcome_of(again)
        if w2["k"] in ("ok", "err"):
            ctx.notes.append(f"{worst['k']} on {s['sql'][:80]!r} did not reproduce alone ({w2['k']}); not reported")
            ctx.add("unreproduced_bad_outcomes")
            trace.append({"h": s["h"], "ks": [r["k"] for r in again]})
        else:
            trace.append({"h": s["h"], "ks": [r["k"] for r in again], "s": w2["s"], "k": w2["k"], "sql": s["sql"][:300],
                          "cls": F.panic_class(w2), "msg": w2.get("msg", w2.get("stderr", ""))[:200]})
    # (V) TLC judges the recorded outcomes against the engine machine
    rejected = vlib.validate_records(ctx, "SqlFuzzTrace", "SqlFuzzTrace.cfg", trace, name="outcomes", max_rejects=12, timeout=3000, heap="8g")
    byh = {s["h"]: s for s in stmts}
    for r in rejected:
        s = byh[r["h"]]
        case = {"h": s["h"], "sql": s["sql"], "schema": r["s"]}
        if "tables" in s:
            case["tables"] = s["tables"]
        ctx.violation(case, f"{r['k']} ({r.get('cls')}: {r.get('msg', '')[:160]}) on schema {r['s']} for {F.expand(s['sql'])[:200]!r}")
    bad_in_trace = [r for r in trace if any(k not in ("ok", "err") for k in r["ks"])]
    if len(rejected) < min(len(bad_in_trace), 13):
        raise vlib.ToolError("binding lost: SqlFuzzTrace accepted a panic/abort/hang record")
    if len(suspects) > 40:
        raise vlib.ToolError(f"{len(suspects)} unlisted bad outcomes — the engine (or the frozen list) changed wholesale; not judged one by one")
    # vacuity
    if kinds["ok"] < 300:
        raise vlib.ToolError(f"coverage collapse: only {kinds['ok']} executions returned a result")
    if len(nontrivial) < 500:
        raise vlib.ToolError(f"coverage collapse: only {len(nontrivial)} statements got past the parser")
    ctx.set("outcomes", dict(kinds))
    ctx.set("error_classes", dict(errcls))
    ctx.set("statements_by_source", dict(bysrc))
    ctx.set("statements_executed", len(stmts))
    ctx.set("frozen_list_size", len(corpus))
    ctx.set("listed_failing_inputs", {k: len(v["inputs"]) for k, v in fnd["classes"].items()})
    ctx.set("distinct_nontrivial", len(nontrivial))
    ctx.set("rule", "evaluations = (statement, schema) executions; non-trivial = distinct statement text that got past the parser on "
            "at least one schema (returned rows, or an error raised by binder/optimizer/planner/executor)")
    ctx.set("exhaustive", False)
    ctx.set("not_covered", "arbitrary byte strings / invalid UTF-8 (byte-level fuzzing is another technique); statements that need "
            "> 4 s on the unchanged tree are left out of the frozen list (deadline verdicts must not depend on machine load)")
    for s in stmts[:2] + stmts[len(stmts) // 2: len(stmts) // 2 + 2] + stmts[-2:]:
        ctx.sample({"sql": s["sql"][:200], "src": s["src"], "outcomes": [[r["s"], r["k"]] for r in res[s["h"]]]})
    ctx.assumptions += [
        "a panic raised on ANY thread while a statement runs counts as a panic, also when the engine turns it into an error or a result",
        f"hang = no return within {DEADLINE} s in the batch AND within {RERUN_DEADLINE} s alone in a fresh process",
        "child processes: main-thread execution, RLIMIT_STACK 8 MiB, RLIMIT_AS 12 GiB (an allocation failure is an abort)",
        "token rendering: tokens joined by single spaces; <REP:n:text> macros expanded by lib/fuzzlib.py"]


def replay(ctx, obj):
    c = obj["case"]
    s = {"h": c["h"], "sql": c["sql"]}
    if "tables" in c:
        s["tables"] = c["tables"]
    recs = F.run_one(ctx, s, RERUN_DEADLINE, tag="replay")
    ctx.add("evaluations", len(recs))
    ctx.set("distinct_nontrivial", 1)
    if not recs:
        raise vlib.ToolError("no record")
    w = outcome_of(recs)
    ctx.sample({"sql": c["sql"][:200], "outcome": w["k"]})
    rej = vlib.validate_records(ctx, "SqlFuzzTrace", "SqlFuzzTrace.cfg", [{"h": c["h"], "ks": [r["k"] for r in recs]}], name="replay")
    if rej:
        ctx.violation(c, f"{w['k']} ({F.panic_class(w)}: {w.get('msg', w.get('stderr', ''))[:160]})")


def selftest(ctx):
    """(1) faults injected by the harness itself (panic, abort, stack overflow, hang) must each be observed by the
    supervisor with the right kind; (2) SqlFuzzTrace must reject each of those records and accept ok/err;
    (3) an unlisted input with a bad outcome must not be absorbed by the findings list."""
    os.environ["QEV_FUZZ_SELFTEST"] = "1"
    probes = [("SELECT 1", "ok"), ("SELECT nosuch FROM t1", "err"), ("SELECT 'SELFTEST_PANIC'", "panic"), ("SELECT 'SELFTEST_ABORT'", "abort"),
              ("SELECT 'SELFTEST_OVERFLOW'", "abort"), ("SELECT 'SELFTEST_HANG'", "hang"), ("SELECT 2", "ok")]
    stmts = [{"h": F.shash(t), "sql": t, "src": "selftest"} for t, _ in probes]
    res = F.run_all(ctx, stmts, deadline=5, procs=1, tag="self")
    fails = 0
    _, idx = listed_index()
    trace = []
    for (t, want), s in zip(probes, stmts):
        recs = res.get(s["h"], [])
        got = outcome_of(recs)["k"] if recs else "none"
        if got != want:
            fails += 1
            vlib.log(f"selftest: {t!r}: observed {got}, expected {want}")
        if s["h"] in idx:
            fails += 1
            vlib.log(f"selftest: probe {t!r} is absorbed by the findings list")
        if recs:
            w = outcome_of(recs)
            trace.append({"h": s["h"], "ks": [r["k"] for r in recs], "k": w["k"]})
    if "overflowed its stack" not in json.dumps(res.get(stmts[4]["h"], [])):
        fails += 1
        vlib.log("selftest: the stack overflow was not observed as such")
    rej = vlib.validate_records(ctx, "SqlFuzzTrace", "SqlFuzzTrace.cfg", trace, name="self", max_rejects=8)
    if sorted(r["k"] for r in rej) != sorted(w for _, w in probes if w not in ("ok", "err")):
        fails += 1
        vlib.log(f"selftest: SqlFuzzTrace rejected {[r['k'] for r in rej]}")
    print(f"selftest: {len(probes)} probes, {fails} failures")
    return 0 if fails == 0 else 1
