"""C43 — exact vector search is the literal ORDER BY <distance> LIMIT k (VecSearch.tla / VecSearchTrace.tla)."""
import concurrent.futures as cf
import copy, json, os
import vlib
from vlib import run_tlc, tlc_must_pass, qev, write_ndjson, read_ndjson, validate_records

LEVEL = "model_checking"
NULL = vlib.NULL
FN = {"l2": "l2_distance", "cos": "cosine_distance", "sim": "cosine_similarity", "dot": "dot_product"}
# paths whose answer the property pins (default = exact mode; a provider without an index is exact in any mode)
EXACT = ["default", "batches", "norule", "noopt", "stub", "indexed_mem"]
MUTANTS = {"index_in_exact": "ExactWhenAsked", "offset_ignored": "ExactWhenAsked", "desc_fires": "FiresOnlyOnCanonical",
           "limit_before_sort": "AcceptLaws"}
ST_KEYS = ("rows", "metric", "dir", "k", "m", "shape", "q")


def render(c, variant=0):
    """SQL text of the abstract statement (the harness creates t(id, v) and u(uid, tag))."""
    q = c["q"] + ([2] if c["shape"] == "widthbad" else [])
    lit = "[" + ", ".join(f"{x}.0" for x in q) + "]"
    if variant % 3 == 1:
        lit = "ARRAY" + lit
    col = "t.v" if c["shape"] == "groupby" else "v"
    key = f"{FN[c['metric']]}({lit}, {col})" if c["shape"] == "swap" else f"{FN[c['metric']]}({col}, {lit})"
    okey = ("-" + key) if c["shape"] == "negated" else key
    d = " DESC" if c["dir"] == "desc" else (" ASC" if variant % 2 == 0 else "")
    order = f" ORDER BY {okey}{d}"
    if c["shape"] == "extra":
        order += ", id ASC"
    if c["shape"] == "nullsfirst":
        order += " NULLS FIRST"
    tail = (f" LIMIT {c['k']}" if c["k"] >= 0 else "") + (f" OFFSET {c['m']}" if c["m"] > 0 or (variant % 5 == 4 and c["k"] >= 0) else "")
    units = ["int"]
    sh = c["shape"]
    if sh == "alias":
        head = "SELECT id AS k FROM t"
    elif sh == "where":
        head = "SELECT id FROM t WHERE id <> 2"
    elif sh == "subq":
        head = "SELECT id FROM (SELECT id, v FROM t) s"
    elif sh == "computed":
        head, units = "SELECT id, id + 1 AS x FROM t", ["int", "int"]
    elif sh == "distsel":
        head, units = f"SELECT id, {key} AS d FROM t", ["int", "f4"]
    elif sh == "join":
        head = "SELECT t.id FROM t JOIN u ON t.id = u.uid"
    elif sh == "groupby":
        head = "SELECT g.id FROM (SELECT id FROM t GROUP BY id) g JOIN t ON t.id = g.id"
    else:
        head = "SELECT id FROM t"
    return head + order + tail, units


def run_engine(ctx, cases, tag, with_stub_indexed_every=5):
    inp = os.path.join(ctx.work, f"{tag}.in.ndjson")
    outp = os.path.join(ctx.work, f"{tag}.out.ndjson")
    hc = []
    for i, c in enumerate(cases):
        sql, units = render(c, i)
        c["sql"] = sql
        paths = list(EXACT) + (["stub_indexed"] if i % with_stub_indexed_every == 0 else [])
        hc.append({"id": i, "dim": 2, "rows": c["rows"], "sql": sql, "units": units, "paths": paths})
    write_ndjson(inp, hc)
    qev(["vecsearch-run", inp, outp], timeout=3000)
    outs = read_ndjson(outp)
    if len(outs) != len(cases):
        raise vlib.ToolError("vecsearch-run returned a different number of records")
    return outs


def trace_rec(c, o):
    """Distinct answers along the exact paths -> one VecSearchTrace line."""
    answers, second = [], []
    for p in EXACT:
        r = o["outs"].get(p)
        if not r or r["k"] != "rows":
            continue
        ids = [row[0] for row in r["rows"]]
        sec = [row[1] for row in r["rows"]] if r["rows"] and len(r["rows"][0]) > 1 else []
        if (ids, sec) not in list(zip(answers, second)):
            answers.append(ids)
            second.append(sec)
    t = {k: c[k] for k in ST_KEYS}
    t["node"] = 1 if o["has_node"] == 1 else 0
    t["answers"] = answers
    t["second"] = second
    return t


def judge(ctx, cases, outs, name):
    """Returns list of (case, why)."""
    bad = []
    trs, owners = [], []
    for c, o in zip(cases, outs):
        case = {k: c[k] for k in ST_KEYS}
        case["sql"] = c["sql"]
        if o["has_node"] == -1:
            bad.append((case, f"the statement could not be planned: {o['plan'][:200]}"))
            continue
        if c["shape"] == "widthbad":
            # width mismatch: the rule must not fire (judged by TLC: node => Canonical); execution is expected to fail (C38's clause)
            if any(o["outs"][p]["k"] == "rows" for p in EXACT):
                ctx.add("width_mismatch_answered")
            trs.append(trace_rec(c, {"has_node": o["has_node"], "outs": {}}))
            owners.append((case, o))
            continue
        failed = [(p, o["outs"][p]) for p in EXACT if o["outs"][p]["k"] != "rows"]
        if failed:
            p, r = failed[0]
            bad.append((case, f"path {p}: the statement did not return rows: {r['k']} {r.get('msg', '')[:160]}"))
            continue
        trs.append(trace_rec(c, o))
        owners.append((case, o))
    back = {id(t): i for i, t in enumerate(trs)}
    rej = validate_records(ctx, "VecSearchTrace", "VecSearchTrace.cfg", trs, name=name, max_rejects=8, timeout=3000, heap="6g")
    for t in rej:
        case, o = owners[back[id(t)]]
        per_path = {p: [row[0] for row in o["outs"][p]["rows"]] for p in EXACT if o["outs"].get(p, {}).get("k") == "rows"}
        exp = next((c.get("expect") for c in cases if c.get("sql") == case["sql"] and c["rows"] == case["rows"]), None)
        why = (f"rejected by VecSearchTrace: has VectorSearch node = {t['node']}, answers per path = {json.dumps(per_path)[:300]}, "
               f"canonical full sort gives {exp}")
        bad.append((case, why))
    return bad


def run(ctx):
    quick = ctx.tier == "quick"
    jobs = [(f"VecSearch_answers_{ctx.tier}.cfg", "answers", None), (f"VecSearch_shapes_{ctx.tier}.cfg", "shapes", None)]
    if not quick:
        jobs += [("VecSearch_answers3_thorough.cfg", "answers3", None), ("VecSearch_answers5_thorough.cfg", "answers5", None)]
        jobs += [(f"VecSearch_mut_{m}.cfg", "mut_" + m, inv) for m, inv in MUTANTS.items()]

    def one(j):
        return j, run_tlc("VecSearch", j[0], workers=(3 if quick else 6), timeout=3400, heap="6g", tag="C43-" + j[1],
                          coverage=(not quick and j[1] == "shapes"))
    with cf.ThreadPoolExecutor(max_workers=2 if quick else 3) as ex:
        results = list(ex.map(one, jobs))
    cases = []
    for (cfg, tag, inv), res in results:
        if inv:
            if res.error:
                raise vlib.ToolError(f"TLC error in {cfg}: {res.error[:300]}")
            if res.violated != inv:
                raise vlib.ToolError(f"design mutant {tag} is not caught by {inv} (got {res.violated}): vacuous property")
            ctx.tlc_stats(res, f"{cfg}: seeded design mutant, {inv} violated as required")
            continue
        tlc_must_pass(res, cfg)
        ctx.tlc_stats(res, f"{cfg}: FiresOnlyOnCanonical, ExactWhenAsked, acceptance laws + exact path on every statement")
        if len(res.cases) < 300:
            raise vlib.ToolError(f"{cfg} emitted only {len(res.cases)} statements")
        if not quick and tag == "shapes":
            for act in ("Fill", "Optimize", "Execute"):
                if res.coverage.get(act, 0) == 0:
                    raise vlib.ToolError(f"{cfg}: action {act} never taken")
        for c in res.cases:
            c["fam"] = tag
        cases += res.cases
    cases.sort(key=lambda c: json.dumps([c[k] for k in ST_KEYS]))
    outs = run_engine(ctx, cases, "stmts")
    for case, why in judge(ctx, cases, outs, "trace"):
        ctx.violation(case, why)
    # evidence, fidelity and vacuity
    nontriv, feats = set(), {"has_node": 0, "no_node": 0, "ties_in_sort": 0, "null_vectors": 0, "offset": 0, "no_limit": 0,
                             "limit_cuts": 0, "stub_consulted_in_indexed_mode": 0, "desc_on_distance": 0}
    shapes, drift_fire, knn_exact = {}, 0, 0
    for c, o in zip(cases, outs):
        ctx.add("evaluations", sum(1 for p in o["outs"] if o["outs"][p]["k"] == "rows"))
        shapes[c["shape"]] = shapes.get(c["shape"], 0) + 1
        feats["has_node" if o["has_node"] == 1 else "no_node"] += 1
        if (o["has_node"] == 1) != (c["fires"] == 1):
            drift_fire += 1
        if o["has_node"] == 1 and c["canon"] != 1:
            pass    # TLC rejects this line (contract)
        feats["ties_in_sort"] += 1 if c["ties"] > 0 else 0
        feats["null_vectors"] += 1 if any(len(v) == 0 for v in c["rows"]) else 0
        feats["offset"] += 1 if c["m"] > 0 else 0
        feats["no_limit"] += 1 if c["k"] < 0 else 0
        feats["limit_cuts"] += 1 if 0 < len(c["expect"]) < c["nelig"] else 0
        feats["desc_on_distance"] += 1 if c["metric"] in ("l2", "cos") and c["dir"] == "desc" else 0
        si = o["outs"].get("stub_indexed")
        if si and si["k"] == "rows" and any(r[0] >= 1000 for r in si["rows"]):
            feats["stub_consulted_in_indexed_mode"] += 1
            if o["has_node"] != 1:
                ctx.violation({k: c[k] for k in ST_KEYS + ("sql",)}, "Indexed mode consulted the index although the optimized plan has no VectorSearch node")
        knn_exact += sum(o["outs"][p].get("knn_calls", 0) for p in ("stub",) if p in o["outs"])
        if len(c["expect"]) >= 1 and c["nelig"] >= 2 and c["shape"] != "widthbad":
            nontriv.add(vlib.chash([c[k] for k in ST_KEYS]))
    for k, v in feats.items():
        if v == 0:
            raise vlib.ToolError(f"no replayed statement exercised {k}" + (" (the index-advertising stub is not reachable: binding lost)" if k.startswith("stub") else ""))
    for sh in ("plain", "swap", "alias", "where", "subq", "extra", "computed", "distsel", "join", "groupby", "nullsfirst", "negated", "widthbad"):
        if shapes.get(sh, 0) == 0:
            raise vlib.ToolError(f"shape {sh} not replayed")
    ctx.set("real_features", feats)
    ctx.set("statements_by_shape", shapes)
    ctx.set("statements", len(cases))
    ctx.set("distinct_nontrivial", len(nontriv))
    ctx.set("exhaustive", True)
    if drift_fire:
        ctx.add("rule_gate_drift", drift_fire)
        ctx.notes.append(f"fidelity: on {drift_fire} statements the VectorSearch node differs from the modelled as-built gates (RuleFires); "
                         "only node => Canonical is contract")
    if knn_exact:
        ctx.add("scan_knn_calls_in_exact_mode", knn_exact)
        ctx.notes.append(f"fidelity: scan_knn was called {knn_exact} times in the default exact mode (its result was not used)")
    for i in (7, len(cases) // 3, len(cases) // 2, -5):
        c, o = cases[i], outs[i]
        ctx.sample({"sql": c["sql"], "rows": c["rows"], "expect_canonical": c["expect"], "has_node": o["has_node"],
                    "default": o["outs"]["default"].get("rows", o["outs"]["default"].get("msg"))})
    ctx.set("rule", "TLC (VecSearch.tla) explores every table of <=3 rows over 5 vectors + NULL (quick) / <=4 rows, <=3 rows over all 9 vectors "
            "of {-1,0,1}^2 + NULL and <=5 rows over 2 vectors + NULL (thorough) x 2 query vectors x 4 metrics x 2 directions x LIMIT/OFFSET "
            "values (thorough: every (k, m) in 0..6 and no LIMIT), checking the acceptance laws and the modelled exact path on each, and the "
            "Fill/Optimize/Execute machine over 5-row tables with ties and NULLs for 13 surrounding query shapes (canonical ones, extra sort key, "
            "WHERE, computed projection, distance in the SELECT list, join, GROUP BY, derived table, NULLS FIRST, negated key, wrong literal "
            "width) under both modes with/without an index; four seeded design mutants must be caught (thorough, selftest). All shape-family "
            "statements and every n-th answers-family statement are rendered to SQL and run on the real engine along 6 exact paths "
            "(default context, one row per batch, VectorSearchPushdown removed, no optimizer, an index-advertising stub provider that returns "
            "non-existent neighbours, Indexed mode without an index); TLC (VecSearchTrace.tla) judges every answer and the plan. "
            "distinct_nontrivial = distinct statements with >= 2 eligible rows and a non-empty expected answer.")
    ctx.assumptions += [
        "keys are compared exactly in integers; for the cosine metrics statements involving a zero-norm vector are excluded (0/0 is not pinned)",
        "rows inside one key class may come in any order and either side of the LIMIT boundary (tie-tolerant acceptance); NULL distances sort "
        "last unless NULLS FIRST is written (the binder's documented default)",
        "has VectorSearch node => canonical shape is contract; canonical => node is fidelity (a missed pushdown is only slow)",
        "a literal of the wrong width must not produce a node; that its execution is an error belongs to C38",
        "the Indexed mode over a provider WITH an index is outside the property (approximate by design); it is only used to show that the stub "
        "is reachable"]


def replay(ctx, obj):
    c = dict(obj["case"])
    c.setdefault("expect", None)
    sql_given = c.get("sql")
    outs = run_engine(ctx, [c], "replay", with_stub_indexed_every=1)
    if sql_given and sql_given != c["sql"]:
        # keep the recorded text (the variant index decides ASC/ARRAY spelling)
        for v in range(30):
            if render(c, v)[0] == sql_given:
                c2 = dict(c)
                inp = os.path.join(ctx.work, "replay2.in.ndjson")
                outp = os.path.join(ctx.work, "replay2.out.ndjson")
                write_ndjson(inp, [{"id": 0, "dim": 2, "rows": c["rows"], "sql": sql_given, "units": render(c, v)[1], "paths": EXACT}])
                qev(["vecsearch-run", inp, outp])
                outs = read_ndjson(outp)
                c["sql"] = sql_given
                break
    for case, why in judge(ctx, [c], outs, "replay"):
        ctx.violation(case, why)
    ctx.add("evaluations", len(EXACT))
    ctx.set("distinct_nontrivial", 1)
    ctx.sample({"sql": c["sql"], "rows": c["rows"], "outs": {p: outs[0]["outs"][p].get("rows", outs[0]["outs"][p].get("msg")) for p in outs[0]["outs"]}})


def selftest(ctx):
    missed = 0
    # 1. the design mutants of the model are caught by the named property
    def one(m):
        return m, run_tlc("VecSearch", f"VecSearch_mut_{m}.cfg", workers=2, timeout=1800, tag="C43-st-" + m)
    with cf.ThreadPoolExecutor(max_workers=2) as ex:
        for m, res in ex.map(one, list(MUTANTS)):
            ok = res.violated == MUTANTS[m] and not res.error
            print(f"selftest: {'caught' if ok else 'MISSED'}: design mutant {m} violates {res.violated}")
            missed += 0 if ok else 1
    # 2. corrupted records of real runs are rejected by the trace spec
    base = [{"rows": [[1, 0], [0, 1], [], [1, 1], [-1, 0]], "metric": "l2", "dir": "asc", "k": 2, "m": 1, "shape": "plain", "q": [1, 0]},
            {"rows": [[1, 1], [1, 1], [0, 1], [], []], "metric": "sim", "dir": "desc", "k": 3, "m": 0, "shape": "plain", "q": [1, 1]},
            {"rows": [[1, 0], [0, 1], [], [1, 1], [-1, 0]], "metric": "l2", "dir": "desc", "k": 2, "m": 0, "shape": "plain", "q": [1, 0]},
            {"rows": [[1, 0], [0, 1], [], [1, 1], [-1, 0]], "metric": "dot", "dir": "desc", "k": 2, "m": 0, "shape": "distsel", "q": [1, 0]}]
    outs = run_engine(ctx, base, "selftest", with_stub_indexed_every=1)
    if judge(ctx, base, outs, "selftest-orig"):
        print("selftest: the unmodified records are rejected")
        return 1
    trs = [trace_rec(c, o) for c, o in zip(base, outs)]
    muts = []
    t = copy.deepcopy(trs[0]); t["answers"] = [[1, 4]]
    muts.append(("OFFSET ignored (rows 1..k instead of m+1..m+k)", t))
    t = copy.deepcopy(trs[0]); t["answers"] = [[4, 5]]
    muts.append(("a farther row instead of a nearer one (LIMIT applied before the sort finished)", t))
    t = copy.deepcopy(trs[0]); t["answers"] = [[4]]
    muts.append(("too few rows", t))
    t = copy.deepcopy(trs[1]); t["answers"] = [[1, 1, 3]]
    muts.append(("a duplicated row", t))
    t = copy.deepcopy(trs[1]); t["answers"] = [[1001, 1002, 1003]]
    muts.append(("the index's neighbours used in exact mode", t))
    t = copy.deepcopy(trs[2]); t["node"] = 1
    muts.append(("VectorSearch node on DESC of a distance", t))
    t = copy.deepcopy(trs[3]); t["second"] = [[x + 1 if x != NULL else x for x in t["second"][0]]]
    muts.append(("distance column not the distance", t))
    t = copy.deepcopy(trs[0]); t["answers"] = [list(reversed(t["answers"][0]))] if len(set(t["answers"][0])) > 1 else [[5, 4]]
    muts.append(("answer in the reverse order", t))
    for why, t in muts:
        rej = validate_records(ctx, "VecSearchTrace", "VecSearchTrace.cfg", [t], name="selftest-mut")
        print(f"selftest: {'rejected' if rej else 'ACCEPTED (binding lost)'}: {why}")
        missed += 0 if rej else 1
    # 3. the stub provider really is consulted once the mode allows it
    si = outs[0]["outs"]["stub_indexed"]
    ok = si["k"] == "rows" and all(r[0] >= 1000 for r in si["rows"]) and outs[0]["outs"]["stub"]["rows"] == outs[0]["outs"]["default"]["rows"]
    print(f"selftest: {'ok' if ok else 'FAILED'}: the stub's wrong neighbours come back in Indexed mode ({si.get('rows')}) and are ignored in the default mode")
    missed += 0 if ok else 1
    return 1 if missed else 0
