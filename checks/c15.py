"""C15 — membership view stays consistent under any discovery and probe history (Membership.tla).

(M) TLC explores Membership.tla exhaustively over the address universe (every history within the
    fails/generation bound) and checks the C15 contract and the finer design properties on every step.
(R) TLC emits behaviours (all paths of a fixed depth, a transition cover of the state graph, random
    walks); `qev member-replay` steps each through the REAL `Membership` with concrete address
    strings and compares the projected state after every call with the spec state.  A history that
    does not match is judged by MembershipTrace.tla in contract mode: rejected = VIOLATION,
    accepted = spec drift (note).
(V) `qev member-record` records random sequential histories (complete observation after every call)
    and concurrent histories (3 threads, invoke/response stamps) from the real object;
    MembershipTrace.tla validates them (strict = the model incl. a linearization search; a strict
    rejection is re-judged in contract mode).
Which spellings denote this node is computed by the harness independently of is_self_address and
handed to TLC as a constant; a disagreement on a spelling the property names is a violation.
"""
import json, os, threading
from concurrent.futures import ThreadPoolExecutor
import vlib
from vlib import run_tlc, tlc_must_pass, qev, write_ndjson, read_ndjson, validate_trace, ToolError

LEVEL = "model_checking"
LOCK = threading.RLock()     # ctx is shared by the parallel trace-validation jobs

MUST_BE_SELF = {"self", "self_localhost", "self_loopback_literal"}
MUST_NOT_BE_SELF = {"port_only_difference", "interface_ip_other_port", "peer"}

# (per tier) bounds of every TLC run
SIZES = {
    "quick": dict(
        configs=["A", "B"],
        mc={"A": dict(ids=[1], errs=[1], maxfails=1, maxgen=2)},
        paths={"A": [dict(universe="full", depth=2, ids=[1], errs=[1], variants=[0])]},
        cover={"A": dict(small=4, ids=[1], errs=[1], variants=[0, 1, 2, 3], maxfails=2)},
        sim={"A": [500], "B": [300]},
        rec={"A": dict(n_seq=40, seq_len=30, n_conc=40), "B": dict(n_seq=20, seq_len=30, n_conc=20)},
        log_every=40,
    ),
    "thorough": dict(
        configs=["A", "B"],
        mc={"A": dict(ids=[1, 2], errs=[1], maxfails=2, maxgen=4), "B": dict(ids=[1], errs=[1], maxfails=2, maxgen=4)},
        paths={"A": [dict(universe="full", depth=2, ids=[1, 2], errs=[1], variants=[0, 3]),
                     dict(universe="small", small=5, depth=3, ids=[1], errs=[1], variants=[0])],
               "B": [dict(universe="full", depth=2, ids=[1], errs=[1], variants=[0])]},
        cover={"A": dict(small=5, ids=[1, 2], errs=[1], variants=[0, 3], maxfails=2),
               "B": dict(small=5, ids=[1], errs=[1], variants=[0, 1, 2, 3], maxfails=2)},
        sim={"A": [10000, 10000], "B": [6000]},
        rec={"A": dict(n_seq=1000, seq_len=40, n_conc=900), "B": dict(n_seq=400, seq_len=40, n_conc=450)},
        log_every=25,
    ),
}
SIM_LEN = 40
SEQ_CHUNK = 15000      # lines per TLC trace-validation run (sequential events)
CONC_CHUNK = 1200      # lines per run when the file holds conc lines (reset + conc pairs)


# ------------------------------------------------------------------------------------------
# universe and constants

def make_universe(ctx, config):
    """Runs the independent self-identification; judges it against is_self_address."""
    path = os.path.join(ctx.work, f"uni_{config}.json")
    qev(["member-universe", config, path])
    u = json.load(open(path))
    model_self = []
    for i, addr in enumerate(u["addrs"]):
        role, named, ind, imp = u["roles"][i], u["named"][i], u["indep_self"][i], u["impl_self"][i]
        if role in MUST_BE_SELF and ind != 1 or role in MUST_NOT_BE_SELF and ind != 0:
            raise ToolError(f"environment: independent self-identification says {addr} ({role}) self={ind}; "
                            f"localhost -> {u['localhost_ips']}, local ips {u['local_ips']}")
        case = {"kind": "selfspelling", "config": config, "address": addr, "role": role,
                "self_address": u["self_address"], "independent": ind, "implementation": imp}
        if isinstance(imp, dict):
            ctx.violation(case, f"is_self_address({addr!r}, {u['self_address']!r}) panicked: {imp}")
            imp = ind
        elif imp != ind:
            if named:
                ctx.violation(case, f"is_self_address({addr!r}, {u['self_address']!r}) = {bool(imp)} but this spelling "
                                    f"({role}) {'denotes' if ind else 'does not denote'} this node")
            else:
                ctx.notes.append(f"drift: {addr} ({role}) independent={ind} implementation={imp}; the model follows the implementation")
        ctx.add("evaluations")
        model_self.append(ind if named else (imp if not isinstance(imp, dict) else ind))
    u["model_self"] = model_self
    json.dump(u, open(path, "w"))
    u["path"] = path
    return u


def small_universe(u, k):
    """k addresses: self, a second spelling of self, the port-only difference, then peers."""
    ranks = lambda role: [i + 1 for i, r in enumerate(u["roles"]) if r == role]
    pick = ranks("self") + (ranks("self_localhost") + ranks("self_loopback_literal"))[:1] + ranks("port_only_difference")
    pick += ranks("peer")[: max(0, k - len(pick))]
    return sorted(pick)


def write_consts(ctx, u, name, **kw):
    c = dict(n=len(u["addrs"]), self=u["self_rank"], selfid=u["self_id"],
             spell=[i + 1 for i, b in enumerate(u["model_self"]) if b == 1],
             small=small_universe(u, kw.pop("small", 4)), ids=[1], errs=[1], variants=[0],
             maxfails=2, maxgen=4, depth=2, universe="full")
    c.update(kw)
    path = os.path.join(ctx.work, f"consts_{u['config']}_{name}.json")
    with open(path, "w") as f:
        f.write(json.dumps(c) + "\n")
    return path


# ------------------------------------------------------------------------------------------
# trace judging

def split_histories(events):
    hs = []
    for e in events:
        if e["ev"] == "reset" or not hs:
            hs.append([])
        hs[-1].append(e)
    return hs


def _validate(ctx, events, consts, mode, tag):
    path = os.path.join(ctx.work, f"trace_{tag}.ndjson")
    write_ndjson(path, events)
    ok, rej, res = validate_trace("MembershipTrace", "MembershipTrace.cfg", path, timeout=3000,
                                  env={"C15_CONSTS": consts, "C15_MODE": mode}, tag=f"C15-{tag}", heap="6g")
    return ok, rej, res


def judge_histories(ctx, hists, consts, mode, tag, budget=6):
    """Validates a list of histories (each a list of events starting with reset) in one TLC run;
    a rejected history is taken out and the rest re-validated.  Returns (accepted, rejected)
    as lists of (index, history[, reject info])."""
    todo = list(enumerate(hists))
    rejected = []
    accepted = []
    rnd = 0
    while todo:
        events = [e for _, h in todo for e in h]
        ok, rej, res = _validate(ctx, events, consts, mode, f"{tag}-{mode}-{rnd}")
        with LOCK:
            vlib.log(f"[C15] trace validation ({mode}) {tag}: {len(todo)} histories, {len(events)} events, {res.wall:.0f}s, {'accepted' if ok else 'REJECTED ' + json.dumps(rej)}")
            ctx.tlc_stats(res, f"trace validation ({mode}) {tag}: {len(todo)} histories, {len(events)} events")
        if ok:
            accepted += todo
            break
        line = rej["line"]
        n = 0
        for j, (idx, h) in enumerate(todo):
            if line <= n + len(h):
                rejected.append((idx, h, dict(rej, at=line - n)))
                accepted += todo[:j]
                todo = todo[j + 1:]
                break
            n += len(h)
        else:
            raise ToolError(f"trace validation {tag}: reject line {line} outside the trace")
        rnd += 1
        if rnd > budget:
            # many rejections: not a tool problem but (probably) a real divergence.  Strict mode hands everything
            # still unjudged to the contract judge; contract mode stops here with the violations it already has.
            if mode == "strict":
                rejected += [(idx, h, {"at": None, "ev": "unjudged-by-strict", "line": 0}) for idx, h in todo]
            vlib.log(f"[C15] trace validation ({mode}) {tag}: rejection budget {budget} exhausted, {len(todo)} histories not judged in this mode")
            break
    return accepted, rejected


def judge(ctx, hists, consts, tag, config, kind, strict_first=True):
    """strict (model) first; what strict rejects is re-judged against the contract only.
    Returns number of histories accepted against the contract."""
    if not hists:
        return 0
    if strict_first:
        acc, rej = judge_histories(ctx, hists, consts, "strict", tag)
        with LOCK:
            ctx.add("histories_accepted_strict", len(acc))
    else:
        acc, rej = [], [(i, h, None) for i, h in enumerate(hists)]
    n_ok = len(acc)
    if rej:
        acc2, rej2 = judge_histories(ctx, [h for _, h, _ in rej], consts, "contract", tag + "-rej")
        LOCK.acquire()
        for i, h in acc2:
            info = rej[i][2]
            ctx.add("drift_histories")
            if len(ctx.notes) < 20:
                ctx.notes.append(f"drift ({tag}): history matches the C15 contract but not the model"
                                 + (f" (strict reject at event {info.get('at')}, {info.get('ev')})" if info else "")
                                 + f": {json.dumps(h[1:4])[:400]}")
        n_ok += len(acc2)
        for i, h, info in rej2:
            ctx.violation({"kind": "trace", "config": config, "what": kind, "events": h, "reject": info},
                          f"{kind}: the real Membership did something C15 forbids at event {info.get('at')} of the history "
                          f"({json.dumps(h[min(info.get('at', 1), len(h)) - 1])[:300]})")
        LOCK.release()
    return n_ok


# ------------------------------------------------------------------------------------------
# run

def tlc_jobs(ctx, S, unis):
    """All model-checking / emission runs of the tier, as (label, kind, config, callable)."""
    jobs = []
    for cfg, b in S["mc"].items():
        c = write_consts(ctx, unis[cfg], "mc", **b)
        jobs.append((f"(M) exhaustive {cfg}", "mc", cfg, lambda c=c, cfg=cfg: run_tlc(
            "MCMembership", f"Membership_{ctx.tier}.cfg", workers=6, timeout=3000, env={"C15_CONSTS": c},
            coverage=(ctx.tier == "thorough"), heap="6g", tag=f"C15-mc-{cfg}")))
    for cfg, lst in S["paths"].items():
        for j, b in enumerate(lst):
            c = write_consts(ctx, unis[cfg], f"paths{j}", **b)
            jobs.append((f"(R) all paths depth {b['depth']} {b['universe']} {cfg}", "emit", cfg, lambda c=c, cfg=cfg, j=j: run_tlc(
                "MCMembership", "Membership_paths.cfg", workers=3, timeout=3000, env={"C15_CONSTS": c}, heap="6g", tag=f"C15-paths{j}-{cfg}")))
    for cfg, b in S["cover"].items():
        c = write_consts(ctx, unis[cfg], "cover", universe="small", **b)
        jobs.append((f"(R) transition cover {cfg}", "emit", cfg, lambda c=c, cfg=cfg: run_tlc(
            "MCMembership", "Membership_cover.cfg", workers=3, timeout=3000, env={"C15_CONSTS": c}, heap="6g", tag=f"C15-cover-{cfg}")))
    for cfg, nums in S["sim"].items():
        c = write_consts(ctx, unis[cfg], "sim", ids=[1, 2, 3], errs=[1, 2], variants=[0, 1, 2, 3], depth=SIM_LEN)
        for j, num in enumerate(nums):
            jobs.append((f"(R) {num} random walks of {SIM_LEN} {cfg} (seed {ctx.seed * 1000 + j})", "sim", cfg, lambda c=c, cfg=cfg, j=j, num=num: run_tlc(
                "MCMembership", "Membership_sim.cfg", workers=1, timeout=3000, env={"C15_CONSTS": c}, simulate=num,
                depth=SIM_LEN + 1, seed=ctx.seed * 1000 + j, heap="4g", tag=f"C15-sim{j}-{cfg}")))
    return jobs


def replay_histories(ctx, u, hists, tag, mutant=None):
    inp = os.path.join(ctx.work, f"{tag}.in.ndjson")
    outp = os.path.join(ctx.work, f"{tag}.out.ndjson")
    write_ndjson(inp, hists)
    qev(["member-replay", u["path"], inp, outp] + ([mutant] if mutant else []), timeout=3000)
    outs = read_ndjson(outp)
    return outs[:-1], outs[-1]["summary"]


REQUIRED_TAGS = ["set_with_self_spelling_and_peers", "reresolve_same_set_with_probe_state", "churn_with_probed_survivor",
                 "set_with_duplicates", "resolve_error_with_members", "up_on_peer", "down_on_peer",
                 "probe_of_absent_peer", "probe_of_self_spelling"]


def run(ctx):
    S = SIZES[ctx.tier]
    unis = {cfg: make_universe(ctx, cfg) for cfg in S["configs"]}
    ctx.set("universes", {cfg: {"self": u["self_address"], "addresses": dict(zip(u["addrs"], u["roles"])),
                                "self_spellings": [a for a, b in zip(u["addrs"], u["model_self"]) if b]} for cfg, u in unis.items()})
    if any(v["case"].get("kind") == "selfspelling" for v in ctx.violations):
        return   # the constant the model needs is itself in dispute; nothing below would be meaningful
    consts_trace = {cfg: write_consts(ctx, u, "trace") for cfg, u in unis.items()}

    # ---- (V) record from the real object first (fast); its validation runs next to the (M) runs ----
    conc_overlap = 0
    vjobs = []
    for cfg, r in S["rec"].items():
        u = unis[cfg]
        seqp = os.path.join(ctx.work, f"rec_seq_{cfg}.ndjson")
        concp = os.path.join(ctx.work, f"rec_conc_{cfg}.ndjson")
        qev(["member-record", u["path"], str(ctx.seed), str(r["n_seq"]), str(r["seq_len"]), str(r["n_conc"]), "3", "8", seqp, concp], timeout=3000)
        seq = split_histories(read_ndjson(seqp))
        conc = split_histories(read_ndjson(concp))
        for h in conc:
            conc_overlap += 1 if h[1].get("overlap", 0) >= 2 else 0
        ctx.add("evaluations", sum(len(h) - 1 for h in seq) + sum(len(h[1]["ops"]) for h in conc))
        ctx.add("recorded_sequential_histories", len(seq))
        ctx.add("recorded_concurrent_histories", len(conc))
        per_seq = max(1, SEQ_CHUNK // (r["seq_len"] + 1))
        per_conc = CONC_CHUNK // 2
        vjobs += [(seq[i:i + per_seq], f"recseq_{cfg}_{i}", cfg, "recorded sequential history") for i in range(0, len(seq), per_seq)]
        vjobs += [(conc[i:i + per_conc], f"recconc_{cfg}_{i}", cfg, "recorded concurrent history (3 threads)") for i in range(0, len(conc), per_conc)]
        if conc:
            ctx.sample({"family": "recorded concurrent history", "config": cfg, "ops": conc[len(conc) // 2][1]["ops"][:8]}, cap=8)
    ctx.set("concurrent_histories_with_overlapping_calls", conc_overlap)
    if conc_overlap < 5:
        raise ToolError(f"vacuity: only {conc_overlap} concurrent histories had overlapping calls")

    # ---- (M) + emission + (V) validation, in parallel (independent TLC processes) --------------------
    jobs = tlc_jobs(ctx, S, unis)
    ex = ThreadPoolExecutor(max_workers=6)
    futs = [(lab, kind, cfg, ex.submit(fn)) for lab, kind, cfg, fn in jobs]
    vfuts = [ex.submit(judge, ctx, hs, consts_trace[cfg], tag, cfg, what) for hs, tag, cfg, what in vjobs]
    results = [(lab, kind, cfg, f.result()) for lab, kind, cfg, f in futs]
    hist_by_cfg = {cfg: [] for cfg in unis}
    fam_counts = {}
    for lab, kind, cfg, res in results:
        vlib.log(f"[C15] {lab}: {res.wall:.0f}s, {res.distinct} distinct / {res.generated} generated, {len(res.cases)} behaviours")
        tlc_must_pass(res, lab)
        if kind == "mc":
            ctx.tlc_stats(res, lab + ": invariants NoSelfPeer ViewOk TypeOK, step properties (contract + design)")
            if res.distinct < 500:
                raise ToolError(f"{lab}: only {res.distinct} states")
            if ctx.tier == "thorough":
                for act in ("SetMembers", "RecordUp", "RecordDown", "ResolveError"):
                    if res.coverage.get(act, 0) <= 0:
                        raise ToolError(f"{lab}: action {act} never taken (coverage {res.coverage})")
        else:
            ctx.tlc_stats(res, lab)
            if not res.cases:
                raise ToolError(f"{lab}: no behaviour emitted")
            fam_counts[lab] = len(res.cases)
            hist_by_cfg[cfg] += res.cases
            ctx.sample({"family": lab, "config": cfg, "history [k, L, a, id, e, peers, resolved, gen, lastErr]": res.cases[len(res.cases) // 2][:6]}, cap=8)
    ctx.set("emitted_histories", fam_counts)

    # ---- (R) replay on the real object ------------------------------------------------------------
    total_nontrivial = 0
    tags = {}
    for cfg, hs in hist_by_cfg.items():
        if not hs:
            continue
        u = unis[cfg]
        recs = [{"id": i, "h": h, "log": 1 if i % S["log_every"] == 0 else 0} for i, h in enumerate(hs)]
        outs, summ = replay_histories(ctx, u, recs, f"replay_{cfg}")
        with LOCK:
            ctx.add("evaluations", summ["steps"])
            ctx.add("histories_replayed", summ["histories"])
            ctx.add("histories_matching_spec_state_exactly", summ["matched"])
            ctx.add("traces_validated_against_impl", summ["matched"])
        total_nontrivial += summ["distinct_nontrivial"]
        for k, v in summ["tags"].items():
            tags[k] = tags.get(k, 0) + v
        bad = [o for o in outs if not o["ok"]]
        logged = [o for o in outs if o["ok"]]
        # harness-judged part of "keeps every peer's probe state": fields the spec does not carry
        for o in bad:
            extra = [d for d in o["diffs"] if d["field"] == "probe_state_extra"]
            if extra:
                with LOCK:
                    ctx.violation({"kind": "history", "config": cfg, "h": hs[o["id"]], "diffs": extra},
                                  f"re-resolving the same set changed a peer's probe state: {json.dumps(extra[0])[:300]}")
        if bad:
            with LOCK:
                if len(bad) > 200:
                    ctx.notes.append(f"{len(bad)} histories differ from the spec state ({cfg}); judging the first 200")
                ctx.add("histories_differing_from_spec_state", len(bad))
                ctx.notes.append(f"replay {cfg}: first difference from the spec state: {json.dumps(bad[0]['diffs'][:2])[:500]}")
            # a mismatch is judged against the contract by TLC: rejected = VIOLATION, accepted = drift
            vfuts.append(ex.submit(judge, ctx, [o["events"] for o in bad[:200]], consts_trace[cfg], f"replaybad_{cfg}", cfg,
                                   "replayed TLC behaviour", False))
        # cross-check: a sample of the matching histories goes through the trace spec as well
        vfuts.append(ex.submit(judge, ctx, [o["events"] for o in logged], consts_trace[cfg], f"replaylog_{cfg}", cfg,
                               "replayed TLC behaviour (matching)"))
    ctx.set("history_shapes_exercised", tags)
    n_trace_ok = sum(f.result() for f in vfuts)
    ex.shutdown()
    ctx.add("histories_accepted_by_trace_spec", n_trace_ok)
    ctx.add("traces_validated_against_impl", n_trace_ok)
    for t in REQUIRED_TAGS:
        if tags.get(t, 0) == 0:
            raise ToolError(f"vacuity: no replayed history exercised '{t}'")

    ctx.set("distinct_nontrivial", total_nontrivial)
    ctx.set("rule", "Histories are TLC behaviours of Membership.tla: every path of the stated depth, one path per edge of the state graph "
            "(transition cover, states modulo the generation value) and seeded random walks of 40 operations, over 7 addresses "
            "(self verbatim, localhost/127.0.0.1 spelling, a local interface IP with the same port, a port-only difference, peers) under two "
            "concretizations (self advertised as 127.0.0.1:7070 and as localhost:7070). distinct = hash of the operation sequence + expected "
            "states; non-trivial = the history hands set_members a list mixing a self spelling with peers AND re-resolves the unchanged "
            "member set while some peer carries probe state (Up/Down). evaluations = calls executed on the real Membership.")
    ctx.set("exhaustive", True)
    ctx.assumptions += [
        "'sorted' means byte-wise order of the address strings (String::cmp); ranks in the spec are positions in that order",
        "ground truth for self spellings: string equality, equal port and an IP shared through std resolution (/etc/hosts) or bound to a "
        "local interface (own getifaddrs walk); only disagreements on spellings the property names (verbatim, localhost/127.0.0.1, "
        "port-only difference, foreign hosts) are violations, the interface-IP rule is fidelity",
        "contract = self exactly once and never a peer, strictly sorted unique addresses, generation monotone and strictly advancing when the "
        "address set changes, a resolve error removes no member, re-resolving the same set keeps every peer record; everything else the "
        "model says (exact member set after set_members, generation +1 rule, survivors under churn, return values, linearizability of "
        "concurrent calls) is fidelity: reported as drift, exit 0",
        "concurrent histories are judged against the contract only through what reads returned in real-time order; a history with no "
        "linearization that still satisfies those is reported as drift",
        "(M) is exhaustive within the fails/generation bound; the transition cover identifies states modulo the generation counter, which no operation reads",
    ]


# ------------------------------------------------------------------------------------------
# replay of a violation file

def replay(ctx, obj):
    c = obj["case"]
    cfg = c.get("config", "A")
    u = make_universe(ctx, cfg)
    ctx.set("distinct_nontrivial", 1)
    ctx.sample({k: c[k] for k in c if k not in ("events",)})
    if c["kind"] == "selfspelling":
        return                     # make_universe re-judged it
    ctx.violations = [v for v in ctx.violations if v["case"].get("kind") != "selfspelling"]
    consts = write_consts(ctx, u, "trace")
    if c["kind"] == "history":
        outs, summ = replay_histories(ctx, u, [{"id": 0, "h": c["h"], "log": 1}], "replay_one")
        ctx.add("evaluations", summ["steps"])
        o = outs[0]
        extra = [d for d in o.get("diffs", []) if d["field"] == "probe_state_extra"]
        if extra:
            ctx.violation(c, f"re-resolving the same set changed a peer's probe state: {json.dumps(extra[0])[:300]}")
        judge(ctx, [o["events"]], consts, "replay_one", cfg, "replayed TLC behaviour", strict_first=False)
    else:
        ev = c["events"]
        # re-execute the calls of a sequential trace on a fresh object, then judge what it does now
        if all(e["ev"] in ("reset", "step") for e in ev):
            h = [[e["k"], e["L"], e["a"], e["id"], e["e"], [], 0, 0, -1] for e in ev if e["ev"] == "step"]
            outs, summ = replay_histories(ctx, u, [{"id": 0, "h": h, "log": 1}], "replay_one")
            ctx.add("evaluations", summ["steps"])
            ev = outs[0]["events"]
        ctx.add("evaluations", len(ev))
        judge(ctx, [ev], consts, "replay_one", cfg, c.get("what", "recorded history"), strict_first=False)


# ------------------------------------------------------------------------------------------
# selftest: the binding rejects what it must reject

def selftest(ctx):
    import copy
    ok = True

    def expect(name, cond):
        nonlocal ok
        print(f"selftest {name}: {'detected' if cond else 'NOT DETECTED'}")
        ok = ok and cond

    u = make_universe(ctx, "A")
    consts = write_consts(ctx, u, "trace")
    csim = write_consts(ctx, u, "sim", ids=[1, 2, 3], errs=[1, 2], variants=[0, 1, 2, 3], depth=SIM_LEN)
    res = run_tlc("MCMembership", "Membership_sim.cfg", workers=1, timeout=900, env={"C15_CONSTS": csim}, simulate=60,
                  depth=SIM_LEN + 1, seed=ctx.seed, tag="C15-selftest-sim")
    tlc_must_pass(res, "selftest simulation")
    hs = res.cases
    recs = [{"id": i, "h": h, "log": 1} for i, h in enumerate(hs)]
    outs, summ = replay_histories(ctx, u, recs, "selftest_base")
    expect("control: unmodified histories match the real object", summ["matched"] == len(hs) and len(hs) == 60)

    # 1. corrupt one expected field of one history (generation, a peer's status, resolved)
    for field, idx in (("generation", 7), ("resolved", 6)):
        bad = copy.deepcopy(recs[:5])
        bad[3]["h"][20][idx] += 1
        o, s = replay_histories(ctx, u, bad, "selftest_corrupt")
        hit = [x for x in o if not x["ok"]]
        expect(f"corrupted expected {field} at step 21 of history 3 is reported there",
               len(hit) == 1 and hit[0]["id"] == 3 and hit[0]["step"] == 21 and hit[0]["diffs"][0]["field"] == field)
    h = next(x for x in copy.deepcopy(recs) if any(st[5] for st in x["h"]))
    k = next(i for i, st in enumerate(h["h"]) if st[5])
    h["h"][k][5][0][1] = (h["h"][k][5][0][1] + 1) % 3
    o, s = replay_histories(ctx, u, [h], "selftest_corrupt")
    expect("corrupted expected peer status is reported", len(o) == 1 and not o[0]["ok"] and o[0]["step"] == k + 1 and o[0]["diffs"][0]["field"] == "view")

    # 2. emulated broken implementations: the whole pipeline must classify them as contract violations
    for mutant in ("clear_on_error", "rebuild_on_set"):
        o, s = replay_histories(ctx, u, recs, f"selftest_{mutant}", mutant=mutant)
        bad = [x for x in o if not x["ok"]]
        acc, rej = judge_histories(ctx, [x["events"] for x in bad[:12]], consts, "contract", f"selftest-{mutant}", budget=20) if bad else ([], [])
        expect(f"mutant {mutant}: {len(bad)} histories differ from the spec state, TLC rejects {len(rej)} of the first {min(12, len(bad))} against the contract",
               len(bad) > 0 and len(rej) > 0)

    # 3. corrupt recorded sequential traces
    seqp, concp = os.path.join(ctx.work, "st_seq.ndjson"), os.path.join(ctx.work, "st_conc.ndjson")
    qev(["member-record", u["path"], str(ctx.seed), "6", "30", "12", "3", "8", seqp, concp])
    seq = split_histories(read_ndjson(seqp))
    conc = split_histories(read_ndjson(concp))
    acc, rej = judge_histories(ctx, seq + conc, consts, "strict", "selftest-control")
    expect("control: recorded histories are accepted (strict)", not rej and len(acc) == len(seq) + len(conc))

    def find(pred):
        for hi, h in enumerate(seq):
            for ei, e in enumerate(h):
                if e["ev"] == "step" and pred(h, ei, e):
                    return hi, ei
        raise ToolError("selftest: no suitable event recorded")

    def rejected(hist, mode, tag):
        a, r = judge_histories(ctx, [hist], consts, mode, "selftest-" + tag)
        return len(r) == 1

    hi, ei = find(lambda h, i, e: e["k"] == "set" and e["ret"] and i + 1 < len(h))
    expect("dropping a membership-changing set_members event is rejected (strict)", rejected(seq[hi][:ei] + seq[hi][ei + 1:], "strict", "drop"))
    hi, ei = find(lambda h, i, e: h[i - 1]["ev"] == "step" and h[i - 1]["gen"] >= 1)
    h2 = copy.deepcopy(seq[hi]); h2[ei]["gen"] = h2[ei - 1]["gen"] - 1
    expect("a decreasing generation is rejected (contract)", rejected(h2, "contract", "gendec"))
    hi, ei = find(lambda h, i, e: e["k"] == "set" and any(x[0] == 1 for x in e["ret"]) and i > 1)
    h2 = copy.deepcopy(seq[hi]); h2[ei]["gen"] = h2[ei - 1]["gen"]
    expect("a member-set change without a generation advance is rejected (contract)", rejected(h2, "contract", "genstuck"))
    spell = [i + 1 for i, b in enumerate(u["model_self"]) if b and i + 1 != u["self_rank"]]
    hi, ei = find(lambda h, i, e: len(e["view"]) >= 2)
    h2 = copy.deepcopy(seq[hi]); h2[ei]["view"] = sorted(h2[ei]["view"] + [[spell[0], 0, 0, -1, 0, -1]])
    expect("a spelling of self listed as a peer is rejected (contract)", rejected(h2, "contract", "selfpeer"))
    h2 = copy.deepcopy(seq[hi]); h2[ei]["view"] = list(reversed(h2[ei]["view"]))
    expect("an unsorted view is rejected (contract)", rejected(h2, "contract", "unsorted"))
    h2 = copy.deepcopy(seq[hi]); h2[ei]["view"] = [r for r in h2[ei]["view"] if r[1] == 0]
    expect("a view without this node is rejected (contract)", rejected(h2, "contract", "noself"))
    hi, ei = find(lambda h, i, e: e["k"] == "err" and len(e["view"]) >= 2)
    h2 = copy.deepcopy(seq[hi]); h2[ei]["view"] = [r for r in h2[ei]["view"] if r[1] == 1]; h2[ei]["peers"] = []; h2[ei]["gen"] += 1
    expect("a resolve error that removes members is rejected (contract)", rejected(h2, "contract", "errclears"))
    hi, ei = find(lambda h, i, e: e["k"] == "set" and not e["ret"] and any(r[1] == 0 and r[2] != 0 for r in e["view"]))
    h2 = copy.deepcopy(seq[hi])
    for r in h2[ei]["view"]:
        if r[1] == 0:
            r[2], r[3], r[4], r[5] = 0, -1, 0, -1
    expect("a same-set re-resolution that resets probe state is rejected (contract)", rejected(h2, "contract", "reset"))

    # 4. concurrent histories
    def conc_find(pred):
        for hi, h in enumerate(conc):
            for oi, o in enumerate(h[1]["ops"]):
                if pred(h[1]["ops"], oi, o):
                    return hi, oi
        raise ToolError("selftest: no suitable concurrent call recorded")

    hi, oi = conc_find(lambda ops, i, o: o["k"] == "set" and any(x[0] == 1 for x in o["ret"]))
    h2 = copy.deepcopy(conc[hi]); del h2[1]["ops"][oi]
    expect("dropping a set_members call from a concurrent history leaves no linearization (strict)", rejected(h2, "strict", "concdrop"))
    hi, oi = conc_find(lambda ops, i, o: o["k"] == "gen" and o["t"] == 0 and any(p["k"] == "gen" and p["t"] != 0 for p in ops))
    h2 = copy.deepcopy(conc[hi])
    first = next(o for o in h2[1]["ops"] if o["k"] == "gen" and o["t"] != 0)
    first["ret"] = h2[1]["ops"][oi]["ret"] + 5
    expect("a generation read that goes backwards in real time is rejected (contract)", rejected(h2, "contract", "concgen"))
    print("selftest C15:", "all corruptions detected" if ok else "FAILED")
    return 0 if ok else 1
