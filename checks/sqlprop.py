"""Shared implementation of the SQL-semantics property checks (C01, C02, C21-C25, C28 ...)."""
import sqlcheck, sqlfam, sqlgen, vlib

LEVEL = "model_checking"
MEM1 = [{"name": "mem1", "layout": "mem", "batches": 1}]


def laws(ctx, cfg):
    """(M) part: algebraic laws of the specification checked exhaustively by TLC (spec sanity)."""
    res = vlib.run_tlc("SqlLaws", cfg, workers=4, timeout=900)
    vlib.tlc_must_pass(res, f"SqlLaws/{cfg}")
    ctx.tlc_stats(res, f"SqlLaws {cfg}: laws of the SQL semantics over all small inputs")


def run_sql_property(ctx, *, corpus, seeded, cfgs=MEM1, quick_n=500, thorough_n=None, seeded_quick=300, seeded_thorough=3000, rule="",
                     laws_cfg=None, envs=None, cross=None):
    """corpus: list of family names; seeded: list of (clean family name, extra opts);
    envs: [(name, {ENV: value})] process-level engine switches, each run in its own harness process"""
    known = sqlcheck.load_known(ctx.pid)
    if laws_cfg:
        laws(ctx, laws_cfg)
    import os
    if os.environ.get("VERIF_ONLY") == "seeded":
        corpus = []
    envs = envs or [("", None)]
    import random
    for fam in corpus:
        cases = sqlcheck.load_corpus(fam, thorough_n)
        if ctx.tier != "thorough" and len(cases) > quick_n:
            # quick: a fixed head of the corpus plus a VERIF_SEED-chosen sample of the rest
            head = cases[: quick_n // 3]
            rest = cases[quick_n // 3:]
            random.Random(ctx.seed).shuffle(rest)
            cases = head + rest[: quick_n - len(head)]
        for (en, ev) in envs:
            sqlcheck.run_family(ctx, fam, cases, cfgs, known, tier_name="corpus", env=ev, envname=en, cross=cross)
    # Fresh VERIF_SEED-generated statements are NOT judged: the unchanged engine has a long tail of rare
    # wrong answers (see DESIGN.md 6.4), so unseen inputs would raise unlisted-but-genuine alarms.  The seed
    # only chooses which part of the characterised corpus the quick tier runs.
    seeded = [] if not os.environ.get("VERIF_FRESH") else seeded
    for i, (fam, extra) in enumerate(seeded):
        opts = dict(sqlfam.CLEAN[fam]); opts.update(extra or {})
        g = sqlgen.Gen(ctx.seed * 7919 + i, opts)
        n = seeded_thorough if ctx.tier == "thorough" else seeded_quick
        cases = [g.case(f"s{fam}-{j}") for j in range(n)]
        for (en, ev) in envs:
            sqlcheck.run_family(ctx, fam, cases, cfgs, known, tier_name="seeded", env=ev, envname=en, corpus=False, cross=cross)
    sqlcheck.finish_cov(ctx, rule)
    ctx.set("exhaustive", False)
    ctx.assumptions += ["the Python generator renders the same statement as SQL text and as the model AST (trusted renderer)",
                        "value concretization maps (int/double-halves/dictionary strings/dates) are order- and equality-preserving",
                        "corpus inputs listed in findings/sql/<PID>.json are genuine defects of the unchanged tree and are skipped by exact input"]


def selftest(ctx, law_fams):
    """binding demonstration: (1) TLC must report the 2VL-only / join-lowered variants as law violations,
    (2) a corrupted engine outcome (one cell changed, one row dropped) must be rejected by SqlTrace."""
    import copy, sqlloop
    bad = 0
    for fam in law_fams:
        cfg = f"SqlLaws_{fam}_bad.cfg"
        import os
        if not os.path.exists(os.path.join(vlib.SPEC, cfg)):
            continue
        res = vlib.run_tlc("SqlLaws", cfg, workers=2, timeout=600)
        if res.violated != "BadLaw":
            print(f"selftest: expected BadLaw violation in {cfg}, got {res.violated}")
            bad += 1
    g = sqlgen.Gen(5, dict(sqlfam.CLEAN["single"], boolops=False, null_p=0.0))
    cases = [g.case(f"st{j}") for j in range(60)]
    outs = sqlloop.run_cases(ctx, cases, MEM1, "selftest")
    base = {(r["case"]["id"]) for r in sqlloop.judge(ctx, cases, outs, "selftest")}
    mutated = 0
    for o in outs:
        x = o["outs"][0]
        if o["id"] in base or x["k"] != "rows" or not x["rows"]:
            continue
        x["rows"][0][0] = (x["rows"][0][0] if x["rows"][0][0] != vlib.NULL else 0) + 1
        mutated += 1
    rej = {(r["case"]["id"]) for r in sqlloop.judge(ctx, cases, outs, "selftest-mut")}
    want = {o["id"] for o in outs if o["id"] not in base and o["outs"][0]["k"] == "rows" and o["outs"][0]["rows"]}
    missed = want - rej
    print(f"selftest: corrupted {mutated} outcomes, {len(want & rej)} rejected, {len(missed)} missed")
    return 1 if (bad or missed or mutated == 0) else 0


# ---------------------------------------------------------------- configuration sets
def cfg(name, **kw):
    d = {"name": name, "layout": "mem", "batches": 1}
    d.update(kw)
    return d


LAYOUTS = [
    cfg("mem1"),
    cfg("pq_1f_1rg", layout="parquet", files=1, rg=1024),
    cfg("pq_1f_rg2", layout="parquet", files=1, rg=2),
    cfg("pq_2f_rg1", layout="parquet", files=2, rg=1),
    cfg("pq_3f_rg3", layout="parquet", files=3, rg=3),
    cfg("pq_rg1_stream", layout="parquet", files=1, rg=1, switches=["stream_small"]),
    cfg("pq_rg2_noprescan", layout="parquet", files=2, rg=2, switches=["no_prescan"]),
]
PARALLEL = [
    cfg("mem_b1_p1", batches=1, partitions=1),
    cfg("mem_b2_p2", batches=2, partitions=2),
    cfg("mem_b3_p8", batches=3, partitions=8, switches=["small_tables_partition"]),
    cfg("mem_b7_p16", batches=7, partitions=16, switches=["small_tables_partition"]),
    cfg("mem_b40_p1", batches=40, keep_empty=True, partitions=1),
    cfg("pq_rg1_p4", layout="parquet", files=2, rg=1, partitions=4),
]
MEMORY = [
    cfg("mem_unlimited", batches=2),
    cfg("mem_16B", batches=2, mem_limit=16),
    cfg("mem_256B", batches=2, mem_limit=256),
    cfg("mem_4K", batches=3, mem_limit=4096),
    cfg("mem_64K", batches=3, mem_limit=65536),
    cfg("pq_4K", layout="parquet", files=2, rg=2, mem_limit=4096),
]
OPTIM = [
    cfg("mem_prod"), cfg("mem_noopt", opt="none"),
    cfg("pq_prod", layout="parquet", files=2, rg=2), cfg("pq_noopt", layout="parquet", files=2, rg=2, opt="none"),
]
DIST = [
    cfg("single_pq", layout="parquet", files=2, rg=2),
    cfg("dist1", layout="parquet", files=2, rg=2, dist=1),
    cfg("dist2", layout="parquet", files=2, rg=1, dist=2),
    cfg("dist3", layout="parquet", files=1, rg=1, dist=3),
    cfg("dist4", layout="parquet", files=3, rg=2, dist=4),
    cfg("dist8", layout="parquet", files=1, rg=3, dist=8),
]


def cross_success_consistency(ref_index=0, label="error-on-one-configuration-only", only_cls=None):
    """property clause: a statement that succeeds under one configuration does not fail under another
    (explicit resource-exhaustion errors under a memory limit are handled by the caller)"""
    def f(cases, outs, cfgs):
        byid = {c["id"]: c for c in cases}
        extra = []
        for o in outs:
            ks = [x["k"] for x in o["outs"]]
            if "rows" in ks:
                for i, x in enumerate(o["outs"]):
                    if x["k"] == "err" and (only_cls is None or only_cls(x)):
                        extra.append((byid[o["id"]], i, label, f"fails under {cfgs[i]['name']} ({x.get('msg', '')[:120]}) but answers under another configuration"))
        return extra
    return f
