"""Shared implementation of the SQL-semantics property checks (C01, C02, C21-C25, C28 ...)."""
import sqlcheck, sqlfam, sqlgen, vlib

LEVEL = "model_checking"
MEM1 = [{"name": "mem1", "layout": "mem", "batches": 1}]


def laws(ctx, cfg):
    """(M) part: algebraic laws of the specification checked exhaustively by TLC (spec sanity)."""
    res = vlib.run_tlc("SqlLaws", cfg, workers=4, timeout=900)
    vlib.tlc_must_pass(res, f"SqlLaws/{cfg}")
    ctx.tlc_stats(res, f"SqlLaws {cfg}: laws of the SQL semantics over all small inputs")


def run_sql_property(ctx, *, corpus, seeded, cfgs=MEM1, quick_n=500, seeded_quick=300, seeded_thorough=3000, rule="", laws_cfg=None,
                     env=None):
    """corpus: list of family names; seeded: list of (clean family name, extra opts)"""
    known = sqlcheck.load_known(ctx.pid)
    if laws_cfg:
        laws(ctx, laws_cfg)
    for fam in corpus:
        cases = sqlcheck.load_corpus(fam, None if ctx.tier == "thorough" else quick_n)
        sqlcheck.run_family(ctx, fam, cases, cfgs, known, tier_name="corpus", env=env)
    for i, (fam, extra) in enumerate(seeded):
        opts = dict(sqlfam.CLEAN[fam]); opts.update(extra or {})
        g = sqlgen.Gen(ctx.seed * 7919 + i, opts)
        n = seeded_thorough if ctx.tier == "thorough" else seeded_quick
        cases = [g.case(f"s{fam}-{j}") for j in range(n)]
        sqlcheck.run_family(ctx, fam, cases, cfgs, known, tier_name="seeded", env=env, corpus=False)
    sqlcheck.finish_cov(ctx, rule)
    ctx.set("exhaustive", False)
    ctx.assumptions += ["the Python generator renders the same statement as SQL text and as the model AST (trusted renderer)",
                        "value concretization maps (int/double-halves/dictionary strings/dates) are order- and equality-preserving",
                        "corpus inputs listed in findings/sql/<PID>.json are genuine defects of the unchanged tree and are skipped by exact input"]
