"""C12 — byte-balanced assignment is a deterministic partition within the LPT bound (Lpt.tla / LptOps.tla / LptTrace.tla)."""
import concurrent.futures as cf
import copy, json, os, random
import vlib
from vlib import run_tlc, tlc_must_pass, qev, write_ndjson, read_ndjson, validate_trace

LEVEL = "model_checking"
FIT = (1 << 31) - 1

def vacuity(ctx, msg):
    """A coverage hole is a tool error - unless the run already found violations: a defect may be the very
    reason a class of outcomes disappeared, and the verdict must not be masked by the guard."""
    if ctx.violations:
        ctx.notes.append("vacuity guard not enforced because violations were found: " + msg)
        return
    raise vlib.ToolError(msg)



# ------------------------------------------------------------------ judges
def judge(r):
    """Exact-integer re-statement of LptOps!AssignOk / BoundOk for records whose numbers exceed TLC's 32-bit
    integers (and a cross-check of TLC's verdict on the others)."""
    if r.get("panic"):
        return "assign_lpt panicked: " + str(r.get("msg"))[:100]
    if r["det"] != 1:
        return "identical inputs gave different assignments (same set / deep copy / 4 threads)"
    n, k = r["n"], len(r["sizes"])
    if r["nodes"] != n or len(r["per_node"]) != n:
        return f"assignment is over {r['nodes']} nodes, asked for {n}"
    seen = [0] * k
    for owned in r["per_node"]:
        for i in owned:
            if not (0 <= i < k):
                return f"split index {i} out of range"
            seen[i] += 1
    if any(c != 1 for c in seen):
        i = next(i for i, c in enumerate(seen) if c != 1)
        return f"split {i} is assigned {seen[i]} times"
    for m in range(n):
        if r["node_bytes"][m] != sum(r["sizes"][i] for i in r["per_node"][m]):
            return f"node_bytes[{m}] is not the sum of what node {m} owns"
        if r["node_rows"][m] != sum(r["rows"][i] for i in r["per_node"][m]):
            return f"node_rows[{m}] is not the sum of what node {m} owns"
        if r["node_splits"][m] != len(r["per_node"][m]):
            return f"node_splits[{m}] is not the number of splits node {m} owns"
    if r["total_bytes"] != sum(r["sizes"]):
        return "total_bytes not preserved"
    if r["opt"] >= 0 and 3 * n * max(r["node_bytes"]) > (4 * n - 1) * r["opt"]:
        return f"max load {max(r['node_bytes'])} exceeds (4/3 - 1/(3*{n})) x OPT, OPT = {r['opt']}"
    return None


def fits(r):
    big = max([0] + r["sizes"]) * max(len(r["sizes"]), 1)
    return 3 * max(r["n"], 1) * big * 4 < FIT and r["opt"] * 4 * max(r["n"], 1) < FIT


def trace_rec(r):
    t = {k: r[k] for k in ("sizes", "rows", "n", "opt", "chk", "arr", "mowner", "panic")}
    for k in ("det", "nodes", "per_node", "node_bytes", "node_rows", "node_splits", "total_bytes", "idle"):
        t[k] = r.get(k, 0 if k in ("det", "nodes", "total_bytes") else [])
    return t


def tlc_judge(ctx, recs, name):
    """LptTrace over the records; returns (indices TLC rejects, number of records TLC actually judged)."""
    bad = []
    rest, base = [trace_rec(r) for r in recs], 0
    path = os.path.join(ctx.work, f"{name}.ndjson")
    drift = 0
    judged = len(recs)
    while rest:
        write_ndjson(path, rest)
        ok, rej, res = validate_trace("LptTrace", "LptTrace.cfg", path, timeout=3000, heap="6g", tag=f"C12-{name}")
        ctx.tlc_stats(res, f"LptTrace over {len(rest)} recorded calls of assign_lpt")
        drift += sum(1 for k, _ in res.prints if k == "DRIFT")
        if ok:
            break
        i = rej["line"] - 1
        bad.append(base + i)
        base += i + 1
        rest = rest[i + 1:]
        if len(bad) >= 6:       # enough to report; the rest is left to the exact-integer judge
            judged = base
            break
    if drift:
        ctx.add("fidelity_drift_records", drift)
        ctx.notes.append(f"spec drift (fidelity only): {drift} records differ from the modelled greedy choice / idle_nodes()")
    return bad, judged


# ------------------------------------------------------------------ inputs
def variants(c, rng, idx, quick):
    sizes, rows, n, opt = c["sizes"], c["rows"], c["n"], c["opt"]
    k = len(sizes)
    out = [{"sizes": sizes, "rows": rows, "n": n, "arr": 0, "opt": opt, "chk": 1 if (idx % 5 == 0 and k <= 6 and n <= 3) else 0,
            "mowner": c["owner"], "scale": 1, "fam": c["fam"]}]
    s1 = rng.choice([2, 3, 7, 1000, rng.randrange(2, 50000)])
    perm = list(range(k))
    rng.shuffle(perm)
    if not quick or idx % 2 == 1:
      out.append({"sizes": [sizes[p] * s1 for p in perm], "rows": [rows[p] for p in perm], "n": n, "arr": 1 + idx % 3,
                "opt": opt * s1, "chk": 0, "mowner": [], "scale": s1, "fam": c["fam"]})
    if idx % (3 if quick else 1) == 0:
        s2 = rng.randrange(1 << 20, 1 << 37)
        out.append({"sizes": [x * s2 for x in sizes], "rows": rows, "n": n, "arr": 0, "opt": opt * s2, "chk": 0,
                    "mowner": c["owner"], "scale": s2, "fam": c["fam"]})
    return out


def random_instances(rng, count, maxk, maxn):
    out = []
    for _ in range(count):
        k = rng.randrange(2, maxk + 1)
        n = rng.randrange(2, maxn + 1)
        pal = [rng.randrange(0, 40) for _ in range(rng.randrange(1, 4))] + [0, 1]
        f = rng.choice([1, 1, 10, 997, 40000])
        sizes = [rng.choice(pal) * f + (rng.randrange(0, 3) if rng.random() < 0.3 else 0) for _ in range(k)]
        out.append({"sizes": sizes, "rows": [rng.randrange(1, 1000) for _ in range(k)], "n": n, "arr": rng.randrange(0, 4),
                    "opt": -1, "chk": 1, "mowner": [], "scale": 1, "fam": "random"})
    return out


def large_instances(rng, count):
    """Many splits on up to 64 nodes: the optimum is out of reach, so only partition / sums / determinism are judged."""
    out = []
    for _ in range(count):
        k = rng.randrange(10, 120)
        n = rng.choice([2, 3, 5, 8, 13, 16, 32, 63, 64])
        pal = [rng.randrange(0, 1000) for _ in range(rng.randrange(2, 6))] + [0]
        sizes = [rng.choice(pal) if rng.random() < 0.7 else rng.randrange(0, 1000) for _ in range(k)]
        out.append({"sizes": sizes, "rows": [rng.randrange(1, 5000) for _ in range(k)], "n": n, "arr": rng.randrange(0, 4),
                    "opt": -2, "chk": 0, "mowner": [], "scale": 1, "fam": "large"})
    return out


def replay_real(ctx, recs, tag):
    inp = os.path.join(ctx.work, f"{tag}.in.ndjson")
    o1 = os.path.join(ctx.work, f"{tag}.out1.ndjson")
    o2 = os.path.join(ctx.work, f"{tag}.out2.ndjson")
    write_ndjson(inp, recs)
    with cf.ThreadPoolExecutor(max_workers=2) as ex:   # two processes: different hash seeds, different address spaces
        a = ex.submit(qev, ["lpt-replay", inp, o1])
        b = ex.submit(qev, ["lpt-replay", inp, o2])
        a.result(); b.result()
    r1, r2 = read_ndjson(o1), read_ndjson(o2)
    if len(r1) != len(recs) or len(r2) != len(recs):
        raise vlib.ToolError("lpt-replay returned a different number of records")
    return r1, r2


def check_records(ctx, r1, r2, name):
    """Contract: cross-process determinism, then TLC (records that fit 32 bits) / exact integers (the rest)."""
    n_viol = 0
    for a, b in zip(r1, r2):
        if a != b:
            ctx.violation({k: a[k] for k in ("sizes", "rows", "n", "arr", "opt", "chk", "mowner", "scale", "fam")},
                          "two processes computed different assignments for identical inputs: "
                          f"{a.get('per_node')} vs {b.get('per_node')}")
            n_viol += 1
    fit = [i for i, r in enumerate(r1) if fits(r) and not r.get("panic")]
    bad, judged = tlc_judge(ctx, [r1[i] for i in fit], name)
    fit = fit[:judged]
    rej = set(fit[j] for j in bad)
    fitset = set(fit)
    for i, r in enumerate(r1):
        why = judge(r)
        if i in fitset and (why is None) != (i not in rej):
            if r["chk"] == 1 and r["opt"] < 0 and why is None:
                why = "TLC: the real assignment violates the contract or the bound (optimum enumerated by TLC)"
            else:
                raise vlib.ToolError(f"TLC and the exact-integer judge disagree on record {i}: tlc_rejects={i in rej} python={why}")
        if why:
            ctx.violation({k: r[k] for k in ("sizes", "rows", "n", "arr", "opt", "chk", "mowner", "scale", "fam")}, why)
            n_viol += 1
    ctx.add("records_judged_by_tlc", len(fit))
    ctx.add("traces_validated_against_impl", len(fit) - len(rej))
    ctx.add("records_judged_by_exact_integers_only", len(r1) - len(fit))
    return n_viol


def run(ctx):
    rng = random.Random(ctx.seed)
    quick = ctx.tier == "quick"
    cfgs = [(f"Lpt_{ctx.tier}.cfg", "exhaustive", "every multiset of sizes, OPT by enumeration of all assignments"),
            (f"Lpt_wide_{ctx.tier}.cfg", "wide", "clusters wider than the split count (idle nodes), N up to 64")]

    def one(c):
        return c, run_tlc("Lpt", c[0], workers=(3 if quick else 8), timeout=3400, heap="6g", tag="C12-" + c[1],
                          coverage=not quick)
    with cf.ThreadPoolExecutor(max_workers=2) as ex:
        results = list(ex.map(one, cfgs))
    cases = []
    for (cfg, fam, label), res in results:
        tlc_must_pass(res, cfg)
        ctx.tlc_stats(res, f"{cfg}: greedy LPT step machine meets contract and bound; {label}")
        if len(res.cases) < 500:
            raise vlib.ToolError(f"{cfg} emitted only {len(res.cases)} instances")
        if not quick:
            for act in ("Place", "Finish"):
                if res.coverage.get(act, 0) == 0:
                    raise vlib.ToolError(f"{cfg}: action {act} never taken")
        for c in res.cases:
            c["fam"] = fam
        cases += res.cases
    cases.sort(key=lambda c: (c["fam"], c["n"], c["sizes"]))
    ctx.set("tlc_instances", len(cases))
    recs = []
    for i, c in enumerate(cases):
        recs += variants(c, rng, i, quick)
    recs += random_instances(rng, 150 if quick else 600, 6 if quick else 7, 3 if quick else 4)
    recs += large_instances(rng, 100 if quick else 1000)
    r1, r2 = replay_real(ctx, recs, "lpt")
    check_records(ctx, r1, r2, "trace")
    # evidence
    nontriv, feats = set(), {"greedy_suboptimal": 0, "size_ties": 0, "zero_byte_splits": 0, "idle_nodes": 0, "n64": 0, "bound_tight": 0}
    for r in r1:
        ctx.add("evaluations")
        if r.get("panic"):
            continue
        k, n = len(r["sizes"]), r["n"]
        nz = [x for x in r["sizes"] if x > 0]
        if k >= 2 and n >= 2 and len(nz) >= 2:
            nontriv.add(vlib.chash([sorted(r["sizes"]), n]))
        mx = max(r["node_bytes"])
        if r["opt"] >= 0 and mx > r["opt"]:
            feats["greedy_suboptimal"] += 1
        if r["opt"] > 0 and 3 * n * mx == (4 * n - 1) * r["opt"]:
            feats["bound_tight"] += 1
        if len(set(r["sizes"])) < k:
            feats["size_ties"] += 1
        if 0 in r["sizes"]:
            feats["zero_byte_splits"] += 1
        if r["idle"]:
            feats["idle_nodes"] += 1
        if n == 64:
            feats["n64"] += 1
    ctx.set("distinct_nontrivial", len(nontriv))
    ctx.set("real_features", feats)
    for k2, v in feats.items():
        if v == 0:
            vacuity(ctx, f"no replayed instance exercised {k2}")
    for r in (r1[7], r1[len(r1) // 3], r1[-1]):
        ctx.sample({k: r[k] for k in ("sizes", "rows", "n", "arr", "opt", "per_node", "node_bytes", "node_rows", "idle", "det")})
    tight = next((r for r in r1 if r["opt"] > 0 and 3 * r["n"] * max(r["node_bytes"]) == (4 * r["n"] - 1) * r["opt"]), None)
    if tight:
        ctx.sample({"bound_attained": {k: tight[k] for k in ("sizes", "n", "opt", "node_bytes")}})
    ctx.set("exhaustive", True)
    ctx.set("rule", "TLC (Lpt.tla) runs the greedy step machine on EVERY multiset of split sizes 0..5 with <=6 (quick) / <=7 (thorough) splits and "
            "N<=3 / N<=4, computing the optimum by enumerating all assignments, plus clusters of 5..64 nodes with fewer splits than nodes. Every instance "
            "is replayed on the real assign_lpt as is, permuted+scaled with other canonical-key arrangements (reverse order, all keys equal, several files), "
            "and scaled to ~2^40 bytes; random instances with ties are added with the optimum enumerated by the trace spec, and instances of 10..120 splits "
            "on up to 64 nodes for which only partition / sums / determinism are judged. Each call is repeated on the "
            "same set, a deep copy and from 4 threads, and the whole replay is run in two processes. distinct_nontrivial = distinct (multiset of sizes, N) "
            "with >=2 splits, >=2 nodes and >=2 non-zero sizes.")
    ctx.assumptions += ["records whose numbers exceed TLC's 32-bit integers (scale ~2^20..2^37) are judged by an exact-integer restatement of the same "
                        "contract in the check; their optimum is TLC's optimum of the unscaled instance times the scale",
                        "bit-identical is observed as equality of the serialised Assignment (all fields, order inside per_node included)"]


def replay(ctx, obj):
    c = obj["case"]
    r1, r2 = replay_real(ctx, [c], "replay")
    check_records(ctx, r1, r2, "replay")
    ctx.add("evaluations"); ctx.set("distinct_nontrivial", 1); ctx.sample(r1[0])


def selftest(ctx):
    base = [{"sizes": [3, 3, 2, 2, 2], "rows": [1, 2, 3, 4, 5], "n": 2, "arr": 0, "opt": 6, "chk": 1, "mowner": [], "scale": 1, "fam": "selftest"},
            {"sizes": [5, 0, 4, 4], "rows": [9, 8, 7, 6], "n": 5, "arr": 1, "opt": 5, "chk": 0, "mowner": [], "scale": 1, "fam": "selftest"}]
    r1, r2 = replay_real(ctx, base, "selftest")
    if r1 != r2 or any(judge(r) for r in r1) or tlc_judge(ctx, r1, "selftest-orig")[0]:
        print("selftest: the unmodified records are rejected")
        return 1
    muts = []
    t = copy.deepcopy(r1[0]); t["per_node"] = [[0, 1, 2, 3, 4], []]; t["node_bytes"] = [12, 0]; t["node_rows"] = [15, 0]; t["node_splits"] = [5, 0]
    muts.append(("a valid partition whose makespan 12 breaks (4/3-1/6) x OPT(6)", t))
    t = copy.deepcopy(r1[0]); t["per_node"][1] = t["per_node"][1] + [t["per_node"][0][0]]
    muts.append(("a split assigned to two nodes", t))
    t = copy.deepcopy(r1[0]); t["node_rows"][0] -= 1
    muts.append(("node_rows not the sum of what the node owns", t))
    t = copy.deepcopy(r1[1]); t["node_bytes"][0] += 1; t["total_bytes"] += 1
    muts.append(("node_bytes / total drifted", t))
    t = copy.deepcopy(r1[1]); t["det"] = 0
    muts.append(("non-deterministic assignment", t))
    t = copy.deepcopy(r1[1]); lost = t["per_node"][0].pop(); t["node_splits"][0] -= 1; t["node_bytes"][0] -= t["sizes"][lost]; t["node_rows"][0] -= t["rows"][lost]; t["total_bytes"] -= t["sizes"][lost]
    muts.append(("a split assigned to no node", t))
    missed = 0
    for why, t in muts:
        bad = tlc_judge(ctx, [t], "selftest-mut")[0]
        pj = judge(t)
        okk = bool(bad) and pj is not None
        print(f"selftest: {'rejected' if okk else 'ACCEPTED (binding lost)'}: {why}  [tlc={'reject' if bad else 'accept'}, exact={pj}]")
        missed += 0 if okk else 1
    return 1 if missed else 0
