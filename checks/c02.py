"""C02 — Three-valued logic decides which rows a predicate keeps (SqlSem.tla as the oracle)."""
import sqlprop, sqlcheck
LEVEL = "model_checking"

def run(ctx):
    for fam in ['bool']:
        sqlprop.laws(ctx, f"SqlLaws_{fam}_{ctx.tier}.cfg")
    sqlprop.run_sql_property(ctx, corpus=['bool'], seeded=[('single', {'max_depth': 3, 'null_p': 0.35})], quick_n=400, seeded_quick=250,
        rule='Boolean expression trees (comparisons, IS [NOT] NULL, IN-lists with and without NULL, BETWEEN, LIKE, AND/OR/NOT to depth 3) over nullable columns, used in WHERE and as SELECT items; TLC also checks the Kleene laws over {TRUE,FALSE,NULL}^2 exhaustively.')

def replay(ctx, obj):
    sqlcheck.replay_sql(ctx, obj)

def selftest(ctx):
    return sqlprop.selftest(ctx, ['bool'])
