"""C05 — statistics-based row-group skipping is sound (RowGroupPruning.tla + harness/src/prune.rs).

(M) TLC checks the MODEL of the as-built decision procedure (row_group_might_match / row_group_definitely_matches at
    the grain of check_comparison, eval_range*, check_i32_stats, definite_comparison) against the contract
        pruned  => no row of the row group has Eval(p, row) = TRUE
        alltrue => every row has Eval(p, row) = TRUE
    over every row group in bound x every predicate in bound; the as-built model breaks it exactly on four named
    deviations (Strict=TRUE prints the counterexample), the repaired procedure (Impl="fixed") is strictly sound, the
    mutant procedures are rejected.
(R) every emitted (row group, predicate) is replayed on the REAL code: one real Parquet file per profile with one row
    group per content, the public pruning functions on the real footer, the real consumer (ParallelParquetSource),
    the engine's own evaluate_expr on the decoded rows, and end to end (provider API and SQL, Parquet vs memory,
    default and QE_COMPILE=0).
Verdict rule: a VIOLATION needs the contract to be broken under BOTH oracles (evaluate_expr, and the spec's Eval);
a disagreement between the two oracles is somebody else's finding (C02: null-strict AND/OR/NOT) or spec drift.
"""
import concurrent.futures as cf
import collections, json, os, random, re, shutil
import vlib
from vlib import run_tlc, tlc_must_pass, qev, write_ndjson, read_ndjson

LEVEL = "model_checking"
NULL = vlib.NULL
FIND = {"nan": "C05/f64-nan-outside-stats", "zero": "C05/f64-signed-zero",
        "f64round": "C05/int64-compared-through-f64", "trunc32": "C05/int32-literal-truncates-int64-stats"}
MUTANTS = ["m_le_strict", "m_not_in", "m_not_between", "m_def_and_or", "m_might_or_and", "m_no_nullguard"]
ALL_PROFILES = ["i32.small", "i32.edge", "i64.small", "i64.edge", "i64.big53", "i64.wrap32", "f64.zeros", "f64.plain",
                "str.uni", "str.long", "date.small", "date.edge"]
DEV_PROFILES = ["f64.zeros", "i64.big53", "i64.wrap32"]


# ------------------------------------------------------------------ TLC
def derive_cfg(ctx, base, name, **subst):
    """A run-time variant of a cfg under spec/: replace `KEY = value` lines, keep everything else."""
    txt = open(os.path.join(vlib.SPEC, base)).read()
    for k, v in subst.items():
        txt, n = re.subn(rf"(?m)^(\s*(?:CONSTANTS\s+)?){k} = .*$", lambda m: f"{m.group(1)}{k} = {v}", txt)
        if n != 1:
            raise vlib.ToolError(f"derive_cfg: {k} not found in {base}")
    path = os.path.join(ctx.work, name)
    with open(path, "w") as f:
        f.write(txt)
    return path


def setlit(xs):
    return "{" + ", ".join(json.dumps(x) for x in xs) + "}"


def tlc(ctx, cfg, tag, workers, coverage=False):
    return run_tlc("RowGroupPruning", cfg, workers=workers, timeout=3300, heap="6g", tag="C05-" + tag, coverage=coverage)


def check_profiles(ctx, res, tables_by_prof):
    """The spec's order tables (PROFILE lines) against the harness's concrete values."""
    for k, rec in res.prints:
        if k != "PROFILE":
            continue
        t = tables_by_prof.get(rec["prof"])
        if t is None:
            continue
        if not t["order_ok"]:
            raise vlib.ToolError(f"concretization of {rec['prof']} is not strictly increasing")
        n = 6
        for i in range(n):
            for j in range(n):
                if (rec["round"][i] == rec["round"][j]) != (t["round"][i] == t["round"][j]):
                    raise vlib.ToolError(f"{rec['prof']}: spec RoundT and the concrete f64 conversion disagree on tokens {i},{j}")
        if rec["prof"] in ("i64.small", "i64.wrap32", "i32.small", "i32.edge", "date.small", "date.edge") and rec["trunc"] != t["trunc"]:
            raise vlib.ToolError(f"{rec['prof']}: spec TruncT {rec['trunc']} != concrete `as i32` {t['trunc']}")
        if (rec["negzero"], rec["poszero"]) != (t["negzero"], t["poszero"]):
            raise vlib.ToolError(f"{rec['prof']}: zero tokens differ")
        if bool(rec["wide"]) != bool(t["long"]):
            raise vlib.ToolError(f"{rec['prof']}: statistics truncation flag differs")
        ctx.add("profiles_cross_checked")


# ------------------------------------------------------------------ helpers on predicates
def pkey(p):
    return json.dumps(p, sort_keys=True, separators=(",", ":"))


def has_bool(p):
    return p["k"] in ("and", "or", "not", "in", "btw")


def leaves(p):
    if p["k"] in ("cmp", "btw", "in"):
        return [p]
    out = leaves(p["a"])
    if "b" in p:
        out += leaves(p["b"])
    return out


def render(p):
    k = p["k"]
    c = {1: "a", 2: "b"}
    if k == "cmp":
        op = {"eq": "=", "ne": "<>", "lt": "<", "le": "<=", "gt": ">", "ge": ">="}[p["op"]]
        l = f"{p['lt']}#{p['l']}"
        return f"{l} {op} {c[p['c']]}" if p["flip"] else f"{c[p['c']]} {op} {l}"
    if k == "btw":
        return f"{c[p['c']]} {'NOT ' if p['neg'] else ''}BETWEEN {p['lt']}#{p['l']} AND {p['lt']}#{p['l2']}"
    if k == "in":
        return f"{c[p['c']]} {'NOT ' if p['neg'] else ''}IN ({', '.join(p['lt'] + '#' + str(t) for t in p['ls'])})"
    if k == "not":
        return f"NOT ({render(p['a'])})"
    return f"({render(p['a'])}) {k.upper()} ({render(p['b'])})"


def spec_ev_str(ev):
    return "".join("N" if v == NULL else str(v) for v in ev)


# ------------------------------------------------------------------ replay on the real code
def build_groups(cases, rng, n_sample, gid0):
    """cases of ONE profile+family -> (main group over all predicates, sample group with consumer / end-to-end runs)."""
    prof = cases[0]["prof"]
    ty, conc = prof.split(".")
    preds, pidx, rgs, ridx = [], {}, [], {}
    bad_preds = []
    for c in cases:
        k = pkey(c["p"])
        if k not in pidx:
            pidx[k] = len(preds)
            preds.append(c["p"])
        r = json.dumps(c["rg"])
        if r not in ridx:
            ridx[r] = len(rgs)
            rgs.append(c["rg"])
        if c["bad"] and pidx[k] not in bad_preds:
            bad_preds.append(pidx[k])
    rng.shuffle(bad_preds)
    sample = bad_preds[: n_sample // 2]
    rest = [i for i in range(len(preds)) if i not in sample]
    rng.shuffle(rest)
    sample = sorted(sample + rest[: max(0, n_sample - len(sample))])
    main = {"gid": gid0, "type": ty, "conc": conc, "wstats": "page", "rgs": rgs, "preds": preds, "e2e": [], "mw": 0, "api": 0}
    samp = {"gid": gid0 + 1, "type": ty, "conc": conc, "wstats": "page", "rgs": rgs, "preds": [preds[i] for i in sample],
            "e2e": list(range(len(sample))), "mw": 1, "api": 1}
    return main, samp, pidx, ridx, sample


def run_harness(ctx, groups, tag, env=None):
    inp = os.path.join(ctx.work, f"{tag}.in.ndjson")
    outp = os.path.join(ctx.work, f"{tag}.out.ndjson")
    wd = os.path.join(ctx.work, f"{tag}.files")
    write_ndjson(inp, groups)
    qev(["prune-replay", inp, outp, wd], timeout=3000, env=env)
    out = {r["gid"]: r for r in read_ndjson(outp)}
    shutil.rmtree(wd, ignore_errors=True)
    for p in (inp, outp):
        os.remove(p)
    if len(out) != len(groups):
        raise vlib.ToolError("prune-replay returned a different number of groups")
    return out


class Judge:
    def __init__(self, ctx):
        self.ctx = ctx
        self.nontrivial = set()
        self.dev_confirmed = collections.Counter()     # deviation -> pairs where the REAL code broke the contract
        self.dev_e2e = collections.Counter()           # deviation -> end-to-end answers that differ because of it
        self.foreign = collections.Counter()
        self.drift = collections.Counter()
        self.drift_examples = {}
        self.validated = 0          # pairs whose real verdicts were judged against both oracles

    def note_drift(self, kind, example):
        self.drift[kind] += 1
        self.drift_examples.setdefault(kind, example)

    def classify(self, case, why, real):
        """The contract is broken on the real code under both oracles."""
        ctx = self.ctx
        ex = {"prof": case["prof"], "pred": render(case["p"]), "rg": case["rg"], "why": why, "real": real}
        predicted = case.get("bad", 1) != 0       # the as-built model shows the same breach (else the deviation does not explain it)
        for s in ("trunc32", "f64round", "zero", "nan"):
            if predicted and s in case["sig"] and ctx.is_known(FIND[s]):
                ctx.known(FIND[s], ex)
                self.dev_confirmed[s] += 1
                return s
        ctx.violation({"prof": case["prof"], "p": case["p"], "rg": case["rg"], "spec": {k: case[k] for k in ("pr", "at", "ev", "sig")},
                       "real": real}, why)
        return None

    def pair(self, case, kept, deff, ev, src):
        """One (row group, predicate): real verdicts vs both oracles.  Returns the deviation name if a known one fired."""
        ctx = self.ctx
        ctx.add("evaluations")
        if "E" in ev or "P" in ev:
            ctx.add("pairs_skipped_predicate_not_evaluable")     # e.g. Date32 vs Float64: the interpreter refuses the types
            if "P" in ev:
                self.note_drift("evaluate_expr panicked", {"prof": case["prof"], "pred": render(case["p"])})
            return (None, None, None)
        sev = spec_ev_str(case["ev"])
        if len(sev) != len(ev):
            raise vlib.ToolError(f"row count mismatch: spec {sev} real {ev}")
        real_pruned, real_def = kept == "0", deff == "1"
        self.validated += 1
        bE = "prune" if (real_pruned and "1" in ev) else ("alltrue" if (real_def and set(ev) != {"1"}) else None)
        bS = "prune" if (real_pruned and "1" in sev) else ("alltrue" if (real_def and set(sev) != {"1"}) else None)
        if real_pruned or real_def or "N" in sev or len(set(sev)) > 1:
            self.nontrivial.add(vlib.chash([case["prof"], case["p"], case["rg"]]))
        if sev != ev:
            nullish = any(NULL in r for r in case["rg"])
            if has_bool(case["p"]) and nullish:
                self.foreign["C02 null-strict AND/OR/NOT/IN in evaluate_expr"] += 1
            else:
                self.note_drift("evaluate_expr differs from the spec's Eval", {"prof": case["prof"], "pred": render(case["p"]), "rg": case["rg"], "spec": sev, "engine": ev})
        if (1 if real_pruned else 0) != case["pr"] or (1 if real_def else 0) != case["at"]:
            self.note_drift(f"{src}: real verdict differs from the modelled decision procedure",
                            {"prof": case["prof"], "pred": render(case["p"]), "rg": case["rg"], "model": [case["pr"], case["at"]], "real": [kept, deff]})
        if bE and bS:
            what = ("the row group is skipped but evaluate_expr keeps one of its rows" if bE == "prune"
                    else "the row filter is proved unnecessary but evaluate_expr does not keep every row")
            return (bE, bS, self.classify(case, f"{src}: {what}", {"kept": kept, "def": deff, "ev": ev}))
        if bE or bS:
            self.foreign["contract broken under one oracle only (the oracles disagree)"] += 1
        return (bE, bS, None)


def replay_family(ctx, J, cases, rng, tag, n_sample, with_c0):
    """All cases of one TLC run (possibly several profiles)."""
    by_prof = collections.defaultdict(list)
    for c in cases:
        by_prof[c["prof"]].append(c)
    groups, meta, gid = [], {}, 0
    for prof in sorted(by_prof):
        main, samp, pidx, ridx, sample = build_groups(by_prof[prof], rng, n_sample, gid)
        groups += [main, samp]
        meta[prof] = (gid, pidx, ridx, sample)
        gid += 2
    # statistics variants on a few profiles: none (nothing may be skipped), chunk-level only, no dictionary
    variants = []
    for prof in sorted(by_prof)[:3]:
        g0 = groups[meta[prof][0] + 1]
        for ws in ("none", "chunk", "nodict"):
            variants.append(dict(g0, gid=gid, wstats=ws, e2e=[], mw=0, api=0))
            meta[(prof, ws)] = gid
            gid += 1
    jobs = {"main": (groups + variants, None)}
    if with_c0:
        jobs["c0"] = ([g for g in groups if g["mw"] == 1], {"QE_COMPILE": "0"})
    with cf.ThreadPoolExecutor(max_workers=2) as ex:
        futs = {k: ex.submit(run_harness, ctx, v[0], f"{tag}-{k}", v[1]) for k, v in jobs.items()}
        outs = {k: f.result() for k, f in futs.items()}
    out = outs["main"]
    tables = {}
    for prof in sorted(by_prof):
        g, pidx, ridx, sample = meta[prof]
        R, S = out[g], out[g + 1]
        tables[prof] = R["tables"]
        nrg = len(R["stats"])
        # fidelity: the real footer vs the modelled writer
        seen_rg = set()
        verdict = {}
        for c in by_prof[prof]:
            ri = ridx[json.dumps(c["rg"])]
            res = R["res"][pidx[pkey(c["p"])]]
            if "panic" in res:
                ctx.violation({"prof": prof, "p": c["p"]}, "the pruning functions panicked: " + res["panic"])
                continue
            if "might" in res:
                J.note_drift("prune_row_groups differs from row_group_might_match", {"prof": prof, "pred": render(c["p"])})
            verdict[(pidx[pkey(c["p"])], ri)] = J.pair(c, res["kept"][ri], res["def"][ri], res["ev"][ri], "public functions")
            if ri not in seen_rg:
                seen_rg.add(ri)
                for ci, col in enumerate(("a", "b")):
                    m, r = c["st"][ci], R["stats"][ri][col]
                    if r["st"] != 1 or r["has"] != m["has"] or r["nulls"] != m["nulls"] or (m["has"] and not c["prof"].endswith(".long") and (r["min"], r["max"]) != (m["min"], m["max"])):
                        J.note_drift("real footer statistics differ from the modelled writer", {"prof": prof, "rg": c["rg"], "col": col, "model": m, "real": r})
        # the consumer + end to end, on the sample
        case_of = {}
        for c in by_prof[prof]:
            case_of[(pidx[pkey(c["p"])], ridx[json.dumps(c["rg"])])] = c
        runs = [("default", S)] + ([("QE_COMPILE=0", outs["c0"][g + 1])] if with_c0 else [])
        for cfgname, SS in runs:
            for si, pi in enumerate(sample):
                res = SS["res"][si]
                ctx.add("end_to_end_predicates")
                if "mw_kept" in res:
                    for ri in range(nrg):
                        c = case_of.get((pi, ri))
                        if c is None:
                            continue
                        eff_def = "1" if (res["mw_kept"][ri] == "1" and res["mw_def"][ri] == "1") else "0"
                        pubdef = "1" if (res["kept"][ri] == "1" and res["def"][ri] == "1") else "0"
                        if res["mw_kept"][ri] != res["kept"][ri] or eff_def != pubdef:
                            d = J.pair(c, res["mw_kept"][ri], eff_def, res["ev"][ri], f"ParallelParquetSource ({cfgname})")
                            J.note_drift("ParallelParquetSource queues something else than the public functions say", {"prof": prof, "pred": render(c["p"])})
                        # rows delivered for a kept, not-proved row group = rows the pushed-down filter keeps
                        if res["mw_kept"][ri] == "1" and eff_def == "0" and "E" not in res["ev"][ri]:
                            want = [ri * 100 + k for k, ch in enumerate(res["ev"][ri]) if ch == "1"]
                            got = [i for i in res.get("mw_ids", []) if i // 100 == ri]
                            if want != got:
                                J.foreign["C06 pushed-down (compiled) row filter differs from evaluate_expr"] += 1
                elif "mw_panic" in res:
                    ctx.violation({"prof": prof, "p": by_prof[prof][0]["p"]}, "ParallelParquetSource panicked: " + str(res["mw_panic"]))
                # which rows may differ because of skipping: rows of pruned groups that memory keeps, rows of proved groups memory drops
                def explain(mem_ids, pq_ids, use_def):
                    exp = set()
                    for ri in range(nrg):
                        rows = [ri * 100 + k for k in range(len(res["ev"][ri]))]
                        if res["kept"][ri] == "0":
                            continue
                        if use_def and res["def"][ri] == "1":
                            exp |= set(rows)
                        else:
                            exp |= set(rows) & set(mem_ids)
                    return exp
                def attribute(ids, what, detail):
                    """ids = rows whose presence differs between Parquet and memory, all inside skipped / proved row groups."""
                    vs = [verdict.get((pi, i // 100), (None, None, None)) for i in ids]
                    if not any(v[1] for v in vs):
                        # the skipping decision is right by SQL semantics; the in-memory answer differs because evaluate_expr does (C02)
                        J.foreign["end-to-end difference where the skipping is right and the interpreter is not (C02 null-strict OR/AND)"] += 1
                        return
                    known = [d for d in ("trunc32", "f64round", "zero", "nan") if any(v[2] == d for v in vs)]
                    if known:
                        J.dev_e2e[known[0]] += 1
                        ctx.known(FIND[known[0]], detail)
                    else:
                        ctx.violation({"prof": prof, "pi": pi, "e2e_p": groups[g + 1]["preds"][si], "rgs": groups[g]["rgs"], "res": res, "config": cfgname}, what)
                for kind, a, b, use_def in (("api", "api_mem", "api_pq", False), ("sql", "sql_mem", "sql_pq", False)):
                    if kind == "api":
                        if res.get("api", 1) == 1:
                            continue
                        mem, pq = res["api_mem"], res["api_pq"]
                    else:
                        if "sql" not in res or not res["sql_mem"].get("ok") or not res["sql_pq"].get("ok"):
                            if "sql" in res and (res["sql_mem"].get("panic") or res["sql_pq"].get("panic")):
                                J.note_drift("SQL end-to-end panicked", {"sql": res["sql"], "pq": res["sql_pq"], "mem": res["sql_mem"]})
                            continue
                        mem, pq = res["sql_mem"]["ids"], res["sql_pq"]["ids"]
                        ctx.add("sql_end_to_end_statements")
                    if mem == pq:
                        continue
                    exp = explain(mem, pq, use_def)
                    if set(pq) == exp:      # the whole difference is what skipping row groups does
                        attribute(sorted(set(mem) ^ set(pq)),
                                  f"{kind} end to end ({cfgname}): the Parquet answer {pq} differs from the in-memory answer {mem} exactly by the skipped row groups",
                                  {"end_to_end": kind, "config": cfgname, "sql": res.get("sql"), "parquet": pq, "memory": mem})
                    else:
                        J.foreign[f"{kind} end-to-end difference not explained by row-group skipping (C04/C06)"] += 1
                # aggregate form: goes through MorselAggregateExec -> ParallelParquetSource (all-true row groups skip the filter)
                if "agg_pq" in res and res["agg_pq"].get("ok") and res["agg_mem"].get("ok") and res["sql_mem"].get("ok"):
                    ctx.add("sql_end_to_end_statements")
                    if res["agg_pq"]["rows"] != res["agg_mem"]["rows"]:
                        exp = explain(res["sql_mem"]["ids"], None, True)
                        want = [[len(exp), sum(exp) if exp else None]]
                        if res["agg_pq"]["rows"] == want:
                            attribute(sorted(exp ^ set(res["sql_mem"]["ids"])),
                                      f"SQL aggregate end to end ({cfgname}): Parquet {res['agg_pq']['rows']} vs memory {res['agg_mem']['rows']}, explained exactly by row groups whose filter was skipped",
                                      {"end_to_end": "sql aggregate", "config": cfgname, "sql": res["sql"].replace("SELECT id", "SELECT COUNT(*), SUM(id)"),
                                       "parquet": res["agg_pq"]["rows"], "memory": res["agg_mem"]["rows"]})
                        else:
                            J.foreign["sql aggregate end-to-end difference not explained by row-group skipping (C04/C06)"] += 1
    # statistics variants
    for key, g in meta.items():
        if not isinstance(key, tuple):
            continue
        prof, ws = key
        V = out[g]
        S = out[meta[prof][0] + 1]
        for si, res in enumerate(V["res"]):
            ctx.add("evaluations")
            if ws == "none":
                bad = [ri for ri in range(len(res["kept"])) if "E" not in res["ev"][ri] and
                       ((res["kept"][ri] == "0" and "1" in res["ev"][ri]) or (res["def"][ri] == "1" and set(res["ev"][ri]) != {"1"}))]
                if bad:
                    ctx.violation({"prof": prof, "wstats": ws, "res": res, "rgs": bad[:10]}, "a file written WITHOUT statistics had a row group skipped / proved against evaluate_expr")
                elif "0" in res["kept"] or "1" in res["def"]:
                    J.note_drift("writer variant none: a row group was skipped / proved without statistics (harmlessly)", {"prof": prof, "kept": res["kept"], "def": res["def"]})
            elif (res["kept"], res["def"]) != (S["res"][si]["kept"], S["res"][si]["def"]):
                J.note_drift(f"writer variant {ws}: verdicts differ from page-level statistics", {"prof": prof, "variant": res, "page": S["res"][si]["kept"]})
        ctx.add("writer_variants_checked")
    return tables


# ------------------------------------------------------------------ run
def run(ctx):
    rng = random.Random(ctx.seed)
    quick = ctx.tier == "quick"
    J = Judge(ctx)
    emit_runs = []
    if quick:
        emit_runs = [("RowGroupPruning_leaf_quick.cfg", "leaf", 3), ("RowGroupPruning_pair_quick.cfg", "pair", 3)]
    else:
        for pr in ALL_PROFILES:
            emit_runs.append((derive_cfg(ctx, "RowGroupPruning_leaf_thorough.cfg", f"leaf-{pr}.cfg", Profiles=setlit([pr])), f"leaf-{pr}", 6))
        for pr in ["i64.small", "f64.zeros", "i64.big53", "i64.wrap32", "str.uni", "date.small"]:
            emit_runs.append((derive_cfg(ctx, "RowGroupPruning_pair_thorough.cfg", f"pair-{pr}.cfg", Profiles=setlit([pr])), f"pair-{pr}", 6))
    base_leaf = "RowGroupPruning_leaf_quick.cfg" if quick else "RowGroupPruning_leaf_thorough.cfg"
    base_pair = "RowGroupPruning_pair_quick.cfg" if quick else "RowGroupPruning_pair_thorough.cfg"
    devp = setlit(DEV_PROFILES) if quick else setlit(ALL_PROFILES)
    side = [  # (cfg, label, expected violated invariant or None)
        (derive_cfg(ctx, base_leaf, "fixed-leaf.cfg", Impl='"fixed"', Strict="TRUE", EmitOn="FALSE", Profiles=devp), "repaired procedure, leaves: strictly sound", None),
        (derive_cfg(ctx, base_pair, "fixed-pair.cfg", Impl='"fixed"', Strict="TRUE", EmitOn="FALSE", **({"Profiles": setlit(["f64.zeros"])} if quick else {})),
         "repaired procedure, compounds: strictly sound", None),
        (derive_cfg(ctx, base_leaf, "strict-leaf.cfg", Strict="TRUE", EmitOn="FALSE", Profiles=devp), "as-built without the deviation escape: counterexample expected", "ANY"),
    ]
    if not quick:
        for m in MUTANTS:
            fam = base_pair if m in ("m_def_and_or", "m_might_or_and") else base_leaf
            side.append((derive_cfg(ctx, fam, f"{m}.cfg", Impl=f'"{m}"', EmitOn="FALSE", Profiles=setlit(["i64.small"])), f"mutant {m}: rejected", "ANY"))

    def side_run(s):
        return s, tlc(ctx, s[0], os.path.basename(s[0])[:-4], 2 if quick else 4)
    pool = cf.ThreadPoolExecutor(max_workers=4 if quick else 2)
    side_f = [pool.submit(side_run, s) for s in side]
    tables = {}
    n_cases = 0
    sig_seen = collections.Counter()
    profile_prints = []
    emit_f = [pool.submit(lambda r=r: (r, tlc(ctx, r[0], r[1], r[2], coverage=not quick))) for r in emit_runs]
    for f in emit_f:
        (cfg, label, _), res = f.result()
        tlc_must_pass(res, label)
        ctx.tlc_stats(res, f"{label}: as-built model vs contract over every (row group, predicate), deviations excused by signature")
        if len(res.cases) < 500:
            raise vlib.ToolError(f"{label}: only {len(res.cases)} cases emitted")
        if not quick:
            for act in ("Write", "Decide"):
                if res.coverage.get(act, 0) == 0:
                    raise vlib.ToolError(f"{label}: action {act} never taken")
        n_cases += len(res.cases)
        for c in res.cases:
            if c["bad"]:
                for s in c["sig"]:
                    sig_seen[s] += 1
        t = replay_family(ctx, J, res.cases, rng, label, 24 if quick else 60, with_c0=True)
        tables.update(t)
        check_profiles(ctx, res, t)
        for c in (res.cases[len(res.cases) // 3], res.cases[-7]):
            ctx.sample({"prof": c["prof"], "pred": render(c["p"]), "rg": c["rg"], "model_pruned": c["pr"], "model_alltrue": c["at"], "spec_eval": spec_ev_str(c["ev"])}, cap=5)
        res.cases, res.out = [], ""
    for f in side_f:
        (cfg, label, expect), res = f.result()
        ctx.tlc_stats(res, label)
        if res.error:
            raise vlib.ToolError(f"TLC error in {label}: {res.error[:300]}")
        if expect:
            if res.violated not in ("PruneSound", "AllTrueSound"):
                raise vlib.ToolError(f"{label}: TLC found no counterexample (got {res.violated}) — the contract invariants have lost their teeth")
            ctx.add("expected_counterexamples_found")
        else:
            tlc_must_pass(res, label)
    pool.shutdown()
    ctx.set("tlc_cases", n_cases)
    # vacuity: every named deviation is predicted by the model AND confirmed on the real code
    for s, fid in FIND.items():
        if sig_seen[s] == 0:
            raise vlib.ToolError(f"deviation {s} never predicted by the model")
        if ctx.is_known(fid) and J.dev_confirmed[s] == 0:
            ctx.notes.append(f"known finding {fid} is listed as open but the real code no longer shows it (fixed?)")
    if ctx.cov.get("end_to_end_predicates", 0) == 0 or ctx.cov.get("sql_end_to_end_statements", 0) == 0:
        raise vlib.ToolError("no end-to-end statement ran")
    ctx.set("distinct_nontrivial", len(J.nontrivial))
    ctx.set("deviations_confirmed_on_real_code", dict(J.dev_confirmed))
    ctx.set("deviations_confirmed_end_to_end", dict(J.dev_e2e))
    ctx.set("foreign_findings", dict(J.foreign))
    ctx.set("traces_validated_against_impl", J.validated)
    if J.drift:
        ctx.set("fidelity_drift", dict(J.drift))
        for k, ex in J.drift_examples.items():
            ctx.notes.append(f"spec drift (fidelity only): {k} x{J.drift[k]}, e.g. {json.dumps(ex)[:300]}")
    ctx.set("exhaustive", True)
    ctx.set("rule", "TLC enumerates, per column profile (type x concretization: int32/int64/date small and at the type's extremes, int64 around 2^53 and "
            "around the i32 wrap, double with -0.0/+0.0/inf/NaN, UTF-8 strings incl. non-ASCII and >64-byte values), EVERY bag of <=2 (quick) / <=3 (thorough) "
            "values from 6 ordered tokens + NULL (+NaN) x EVERY leaf predicate (6 comparisons, literal on either side, literal of every supported type, BETWEEN, "
            "IN, negated forms), and every bag of <=2/3 rows over two columns x NOT / AND / OR compounds (depth 2 in thorough). Each (row group, predicate) is "
            "one evaluation on the real code. distinct_nontrivial = distinct pairs where the real code skipped or proved the row group, or the predicate is not "
            "constant over the rows, or a NULL verdict occurs.")
    ctx.assumptions += ["the contract's Eval uses the engine-defined scalar comparison (Arrow total order on doubles, mixed int/float through f64) and SQL "
                        "three-valued AND/OR/NOT; a VIOLATION needs the contract broken under the spec's Eval AND under the engine's evaluate_expr",
                        "zero-row row groups and files with nested columns are not explored; IN lists do not contain NULL literals (C02 owns them)"]


def replay(ctx, obj):
    c = obj["case"]
    if "e2e_p" in c:       # an end-to-end difference: re-run the statement over the same table, Parquet vs memory
        ty, conc = c["prof"].split(".")
        g = {"gid": 0, "type": ty, "conc": conc, "wstats": "page", "rgs": c["rgs"], "preds": [c["e2e_p"]], "e2e": [0], "mw": 1, "api": 1}
        env = {"QE_COMPILE": "0"} if c.get("config") == "QE_COMPILE=0" else None
        res = run_harness(ctx, [g], "replay", env)[0]["res"][0]
        ctx.sample(res)
        ctx.set("distinct_nontrivial", 1)
        ctx.add("evaluations")
        diffs = []
        if res.get("api") == 0:
            diffs.append(f"provider API: Parquet {res['api_pq']} vs memory {res['api_mem']}")
        if res.get("sql_pq", {}).get("ids") != res.get("sql_mem", {}).get("ids"):
            diffs.append(f"{res.get('sql')}: Parquet {res.get('sql_pq')} vs memory {res.get('sql_mem')}")
        if res.get("agg_pq", {}).get("rows") != res.get("agg_mem", {}).get("rows"):
            diffs.append(f"aggregate form: Parquet {res.get('agg_pq')} vs memory {res.get('agg_mem')}")
        if diffs:
            ctx.violation(c, "end to end, Parquet vs memory: " + "; ".join(diffs))
        return
    if "p" not in c or "rg" not in c:
        raise vlib.ToolError("replay file has no (row group, predicate)")
    ty, conc = c["prof"].split(".")
    g = {"gid": 0, "type": ty, "conc": conc, "wstats": "page", "rgs": [c["rg"]], "preds": [c["p"]], "e2e": [0], "mw": 1, "api": 1}
    out = run_harness(ctx, [g], "replay")[0]
    res = out["res"][0]
    J = Judge(ctx)
    case = {"prof": c["prof"], "p": c["p"], "rg": c["rg"], "pr": c["spec"]["pr"], "at": c["spec"]["at"], "ev": c["spec"]["ev"], "sig": c["spec"]["sig"]}
    J.pair(case, res["kept"][0], res["def"][0], res["ev"][0], "public functions")
    ctx.set("distinct_nontrivial", 1)
    ctx.sample(res)


def selftest(ctx):
    """(1) the contract invariants reject every mutant decision procedure in the model; (2) the judge rejects corrupted real verdicts."""
    missed = 0
    for m in MUTANTS:
        fam = "RowGroupPruning_pair_quick.cfg" if m in ("m_def_and_or", "m_might_or_and") else "RowGroupPruning_leaf_quick.cfg"
        res = tlc(ctx, derive_cfg(ctx, fam, f"st-{m}.cfg", Impl=f'"{m}"', EmitOn="FALSE", Profiles=setlit(["i64.small"])), f"st-{m}", 3)
        ok = res.violated in ("PruneSound", "AllTrueSound")
        print(f"selftest: model mutant {m}: {'rejected by ' + str(res.violated) if ok else 'ACCEPTED (invariants lost their teeth)'}")
        missed += 0 if ok else 1
    N = NULL
    cmp = lambda op, l: {"k": "cmp", "c": 1, "op": op, "lt": "i64", "l": l, "flip": 0}
    g = {"gid": 0, "type": "i64", "conc": "small", "wstats": "page", "rgs": [[[1, 1], [4, 1]], [[2, 1], [N, 1]]],
         "preds": [cmp("gt", 4), cmp("le", 4)], "e2e": [], "mw": 0, "api": 0}
    out = run_harness(ctx, [g], "selftest")[0]
    base = [  # (pred, rg, spec ev, model pruned, model alltrue)
        (0, 0, [0, 0], 1, 0), (1, 0, [1, 1], 0, 1), (1, 1, [1, N], 0, 0)]
    muts = [("a skipped row group in which evaluate_expr keeps a row", 1, 0, "0", None),
            ("a proved row group holding a NULL verdict", 1, 1, None, "1"),
            ("a proved row group holding a FALSE row", 0, 0, "1", "1")]
    for why, pi, ri, kept, deff in muts:
        c2 = vlib.Ctx(ctx.pid, ctx.tier, ctx.seed, ctx.level)
        J = Judge(c2)
        res = out["res"][pi]
        sev = next(b[2] for b in base if b[0] == pi and b[1] == ri)
        case = {"prof": "i64.small", "p": g["preds"][pi], "rg": g["rgs"][ri], "pr": 0, "at": 0, "ev": sev, "sig": []}
        J.pair(case, kept or res["kept"][ri], deff or res["def"][ri], res["ev"][ri], "selftest")
        ok = len(c2.violations) == 1
        print(f"selftest: {'rejected' if ok else 'ACCEPTED (binding lost)'}: {why}")
        missed += 0 if ok else 1
    # the unmodified verdicts are accepted and equal the model's
    c2 = vlib.Ctx(ctx.pid, ctx.tier, ctx.seed, ctx.level)
    J = Judge(c2)
    for pi, ri, sev, mp, ma in base:
        res = out["res"][pi]
        J.pair({"prof": "i64.small", "p": g["preds"][pi], "rg": g["rgs"][ri], "pr": mp, "at": ma, "ev": sev, "sig": []}, res["kept"][ri], res["def"][ri], res["ev"][ri], "selftest")
    if c2.violations or J.drift:
        print(f"selftest: the unmodified verdicts are rejected or drift: {c2.violations} {dict(J.drift)}")
        missed += 1
    return 1 if missed else 0
