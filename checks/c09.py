"""C09 — A distributed answer equals the single-node answer (configuration matrix judged by SqlSem.tla)."""
import sqlprop, sqlcheck
LEVEL = "model_checking"


def dist_cross(cases, outs, cfgs):
    """a distributed run may refuse (NotImplemented) but must not fail where the single node answers"""
    byid = {c["id"]: c for c in cases}
    extra = []
    for o in outs:
        if o["outs"][0]["k"] != "rows":
            continue
        for i, x in enumerate(o["outs"]):
            if i > 0 and x["k"] == "err" and x.get("cls") != "NotImplemented":
                extra.append((byid[o["id"]], i, "distributed-error-where-single-node-answers",
                              f"{cfgs[i]['name']}: {x.get('msg', '')[:140]}"))
    return extra


def run(ctx):
    import vlib
    for fam in ("twophase", "topn"):
        res = vlib.run_tlc("DistMerge", f"DistMerge_{fam}_{ctx.tier}.cfg", workers=6, timeout=2400)
        vlib.tlc_must_pass(res, f"DistMerge/{fam}")
        ctx.tlc_stats(res, f"DistMerge {fam}: partial/final split equals the single-node answer for every sharding of every small table")
    sqlprop.run_sql_property(ctx, corpus=['scan', 'agg', 'order', 'cjoins', 'distshapes'], seeded=[], cfgs=sqlprop.DIST, quick_n=110, thorough_n=1000,
        envs=None, cross=dist_cross,
        rule='Each corpus case is executed through execute_any_distributed with an in-process fragment transport (execute_fragment on a second context over the same Parquet files, Arrow IPC round trip) for clusters of 1,2,3,4,8 participants over several row-group layouts (idle nodes and empty shards arise); the answer must be allowed by SqlSem (order where ORDER BY fixes it) or a refusal.')
    import distplan                    # X02 "DistPlan" sub-model (checks/distplan.py): the planner's strategy choice and its exactness
    distplan.run_sub(ctx)

def replay(ctx, obj):
    if obj.get("case", {}).get("kind") == "distplan":
        import distplan
        return distplan.replay_sub(ctx, obj)
    sqlcheck.replay_sql(ctx, obj)

def selftest(ctx):
    import vlib
    bad = 0
    for inv in ("BadCount", "BadHaving", "BadTopN"):
        res = vlib.run_tlc("DistMerge", f"DistMerge_bad_{inv}.cfg", workers=4, timeout=1200)
        if res.violated != inv:
            print(f"selftest: expected {inv} to be violated, got {res.violated}"); bad += 1
    import distplan
    return 1 if (bad or sqlprop.selftest(ctx, []) or distplan.selftest_sub(ctx)) else 0
