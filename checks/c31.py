"""C31 — every optimizer rule returns a well-formed plan (OptTrace.tla)."""
import json, os, random
import sqlcheck, sqlloop, sqlprop, optprop, vlib
LEVEL = "translation_validation"


def records(cases, outs, cfgs):
    recs = []
    for o in outs:
        base = o["outs"][0]
        for i, (x, m) in enumerate(zip(o["outs"], o["meta"])):
            if i == 0:
                continue
            pl = m.get("plan") or {}
            bound = 1 if pl.get("before") else 0
            before = (pl.get("before") or {}).get("schema", [])
            opt_ok = "ok" if (bound and pl.get("after") is not None) else "err"
            after = (pl.get("after") or {}).get("schema", []) if opt_ok == "ok" else before
            ub = len((pl.get("before") or {}).get("join_refs_unresolved", []))
            ua = len((pl.get("after") or {}).get("join_refs_unresolved", [])) if opt_ok == "ok" else ub
            recs.append({"id": o["id"], "cfg": i, "bound": bound, "before": before, "after": after, "opt": opt_ok,
                         "base": base["k"], "exec": x["k"], "cls": x.get("cls", ""), "ub": ub, "ua": ua,
                         "keys": (pl.get("after") or {}).get("join_key_cols_seen", 0)})
    return recs


def judge(ctx, cases, outs, cfgs, name):
    recs = records(cases, outs, cfgs)
    path = os.path.join(ctx.work, f"{name}.opttrace.ndjson")
    vlib.write_ndjson(path, recs)
    res = vlib.run_tlc("OptTrace", "OptTrace.cfg", workers=1, env={"TRACE": path}, deque=True, timeout=1800, tag=f"C31-{name}")
    if res.error or not any(k == "ACCEPT" for k, _ in res.prints):
        vlib.log(res.out[-3000:])
        raise vlib.ToolError("OptTrace did not consume the trace")
    ctx.tlc_stats(res, f"OptTrace validation of {len(recs)} rule applications ({name})")
    ctx.add("programs", len([r for r in recs if r["bound"]]))
    ctx.add("join_key_columns_checked_for_resolution", sum(r["keys"] for r in recs))
    ctx.add("traces_validated_against_impl", 1)
    return [(r["id"], r["cfg"]) for k, r in res.prints if k == "REJECT"], recs


def run(ctx):
    known = sqlcheck.load_known(ctx.pid)
    cfgs = optprop.rule_cfgs()
    obs = optprop.fired_observer(ctx)
    learned = {}
    nontriv = set()
    for fam in ["optshapes", "optshapes2", "cjoins", "subq", "agg", "cte", "cte2", "samecols"]:
        cases = sqlcheck.load_corpus(fam, 1200 if ctx.tier == "thorough" else None)
        if ctx.tier != "thorough":
            random.Random(ctx.seed).shuffle(cases)
            cases = cases[:40]
        outs = sqlloop.run_cases(ctx, cases, cfgs, f"c31-{fam}")
        obs(cases, outs, cfgs)
        rej, recs = judge(ctx, cases, outs, cfgs, fam)
        byid = {c["id"]: c for c in cases}
        outmap = {o["id"]: o for o in outs}
        for r in recs:
            ctx.add("evaluations")
            if r["bound"] and json.dumps(r["before"]) and r["cfg"]:
                pl = outmap[r["id"]]["meta"][r["cfg"]].get("plan") or {}
                if pl.get("changed"):
                    nontriv.add((sqlcheck.case_hash(byid[r["id"]]), r["cfg"]))
        ctx.add("disagreements_checked", len(rej))
        for (cid, ci) in rej:
            c = byid[cid]
            h = sqlcheck.case_hash(c)
            cfgname = cfgs[ci]["name"]
            x = outmap[cid]["outs"][ci]
            pl = outmap[cid]["meta"][ci].get("plan") or {}
            if pl.get("optimize_error"):
                lab = "optimizer-error"
            elif pl.get("after") and pl["after"]["schema"] != pl["before"]["schema"]:
                lab = "schema-changed"
            elif pl.get("after") and pl["after"].get("join_refs_unresolved") and not pl["before"].get("join_refs_unresolved"):
                lab = "join-key-does-not-resolve"
            else:
                lab = "rewritten-plan-fails-to-execute"
            listed = known.get(fam, {}).get(h, {}).get(cfgname)
            if listed is not None and ctx.is_known(f"C31/{listed}"):
                ctx.known(f"C31/{listed}", {"sql": c["sql"][:160], "cfg": cfgname, "hash": h})
                continue
            if os.environ.get("VERIF_LEARN"):
                learned.setdefault(fam, {}).setdefault(h, {})[cfgname] = lab
                continue
            ctx.violation({"kind": "sql", "family": fam, "case": c, "cfg": cfgs[ci], "label": lab, "got": x, "plan": pl},
                          f"[{fam}/{cfgname}] {lab}: {x.get('msg', '')[:160]} :: {c['sql'][:200]}")
        for c in cases[:1]:
            ctx.sample({"sql": c["sql"], "rule_lists": [cf["name"] for cf in cfgs[:4]]})
    if learned:
        ctx.cov["_learned"] = learned
    ctx.cov["_nontrivial_hashes"] = nontriv
    sqlcheck.finish_cov(ctx, "Each corpus statement is bound; each production rule alone, prefixes of the production order and the whole "
                             "production list are applied through Optimizer::with_rules (with footer statistics over Parquet, without over memory); "
                             "OptTrace.tla requires: no optimizer error, identical output column names and types, and the rewritten plan lowers and "
                             "executes whenever the unoptimized plan does. Non-trivial = distinct (statement, rule list) where the plan changed.")
    optprop.require_fired(ctx, ["alone:PredicatePushdown", "alone:JoinReorder", "alone:SubqueryDecorrelation", "alone:GroupKeyReduction",
                                "alone:PackedGroupKeys", "alone:PackedJoinKeys", "alone:ProjectionPushdown"])
    ctx.assumptions += ["column references 'resolve' is decided (a) structurally for join keys: every qualified column of a join key of the rewritten plan "
                        "must be a column (same qualifier, same name) of the join input it is evaluated on, whenever that held in the bound plan; "
                        "(b) operationally for everything else: the rewritten plan must lower to a physical plan and execute"]


def replay(ctx, obj):
    c = obj["case"]["case"]; cfg = obj["case"]["cfg"]
    cfgs = [optprop.rule_cfgs()[0], cfg]
    outs = sqlloop.run_cases(ctx, [c], cfgs, "replay")
    rej, recs = judge(ctx, [c], outs, cfgs, "replay")
    ctx.add("evaluations"); ctx.set("distinct_nontrivial", 2); ctx.sample({"sql": c["sql"], "out": outs[0]["outs"]})
    if rej:
        ctx.violation(obj["case"], "replayed: rewritten plan not well formed")


def selftest(ctx):
    cases = sqlcheck.load_corpus("optshapes", 30)
    cfgs = optprop.rule_cfgs()[:3]
    outs = sqlloop.run_cases(ctx, cases, cfgs, "selftest")
    rej0, recs = judge(ctx, cases, outs, cfgs, "selftest0")
    # corrupt: rename one output column after the rule / make the rewritten plan fail
    n = 0
    for o in outs:
        m = o["meta"][1].get("plan") or {}
        if m.get("after") and m["after"]["schema"]:
            m["after"]["schema"][0][0] = m["after"]["schema"][0][0] + "_renamed"
            n += 1
    rej1, _ = judge(ctx, cases, outs, cfgs, "selftest1")
    print(f"selftest: baseline rejects {len(rej0)}, after renaming a column in {n} rewritten plans: {len(rej1)} rejects")
    return 0 if len(rej1) >= len(rej0) + n and n > 0 else 1
