"""C10 — a failing fragment fails the whole query (Scatter.tla / ScatterOps.tla / ScatterTrace.tla).

(M) TLC explores the coordinator model exhaustively: every fault kind at every in-flight shard, all
    reply orders, scatter and gather shapes; the property as invariants; a kill matrix over named
    coordinator mutants and the unchanged tree's decoder (short_stream).
(R) every terminal fault vector TLC emits is replayed on the REAL execute_any_distributed through a
    fault-injecting FragmentTransport over real Parquet tables (qev dist-replay), plus every byte
    offset of real fragment payloads (cuts and single-byte corruptions), plus a second binding over
    real sockets (qev dist-http: three spawned nodes behind a fault-injecting TCP proxy).
(V) every recorded execution is judged by TLC (ScatterTrace.tla) with the same contract operator
    the model's invariants use.
"""
import collections, concurrent.futures, copy, itertools, json, os, random, shutil, subprocess
import vlib
from vlib import run_tlc, tlc_must_pass, write_ndjson, read_ndjson, log

LEVEL = "model_checking"
F_SHORT = "C10/ipc-cut-at-message-boundary"
F_ABORT = "C10/corrupt-length-aborts-process"
MUTANTS = ["short_stream", "filter_ok", "retry_local", "http_empty", "ignore_decode", "skip_digest"]
ACTIONS = ["FanOut", "Arrive", "LocalOk", "LocalErr", "Collect", "Finish"]   # the eleven reply actions are all instances of Arrive
MODEL_KINDS = ["transport", "http", "digest", "trunc_hdr", "trunc_term", "trunc_inmsg", "trunc_marker", "trunc_boundary", "trunc_eos", "corrupt"]
ONE_TABLE = ["concat", "group", "global", "topn", "join", "gdistinct", "tiny", "empty"]
GARBAGE_VARIANTS = 9


# --------------------------------------------------------------------------------------------
# running the harness (a corrupt payload can ABORT the process under test: attribute and resume)

def _qev_resumable(sub, cases, tag, ctx, heavy=0, abort_budget=1, timeout=6000):
    inp = os.path.join(ctx.work, f"{tag}.in.ndjson")
    outp = os.path.join(ctx.work, f"{tag}.out.ndjson")
    files = os.path.join(ctx.work, f"{tag}.files")
    for f in (outp, outp + ".cur", outp + ".cur.sends"):
        if os.path.exists(f):
            os.remove(f)
    rest = list(cases)
    done = 0
    aborts = 0
    kills = 0

    def complete_lines():
        """number of records written so far; a line cut short by a kill is dropped from the file"""
        if not os.path.exists(outp):
            return 0
        raw = open(outp, "rb").read()
        keep = raw[:raw.rfind(b"\n") + 1]
        if len(keep) != len(raw):
            with open(outp, "wb") as f:
                f.write(keep)
        return keep.count(b"\n")
    try:
        while rest:
            write_ndjson(inp, rest)
            p = vlib.qev([sub, inp, outp, files, str(heavy), str(max(0, abort_budget - aborts))], timeout=timeout, check=False)
            nrec = complete_lines()
            new = nrec - done
            done = nrec
            if p.returncode == 0:
                if new != len(rest):
                    raise vlib.ToolError(f"qev {sub} returned {new} records for {len(rest)} cases")
                break
            if p.returncode in (-9, -15, 137, 143):
                # killed from outside (OOM killer, an operator): not an outcome of the code under test; resume
                kills += 1
                if kills > 5:
                    raise vlib.ToolError(f"qev {sub} was killed {kills} times (signal {p.returncode})")
                log(f"[C10] qev {sub} ({tag}) was killed from outside (rc {p.returncode}); resuming after {done} records")
                rest = rest[new:]
                continue
            cur = outp + ".cur"
            if p.returncode not in (-6, 134) or not os.path.exists(cur) or new >= len(rest):
                log(p.stderr[-3000:])
                raise vlib.ToolError(f"qev {sub} exited {p.returncode} outside a case")
            c = json.load(open(cur))
            if c != rest[new]:
                raise vlib.ToolError(f"qev {sub}: the case in flight is not the next unanswered one")
            r = dict(c)
            r["outcome"] = "abort"
            first = [l for l in p.stderr.strip().splitlines() if l.strip()]
            r["err"] = (first[0] if first else f"exit {p.returncode}")[:200]
            side = outp + ".cur.sends"
            r["sends"] = read_ndjson(side) if os.path.exists(side) else []
            with open(outp, "a") as f:
                f.write(json.dumps(r, separators=(",", ":")) + "\n")
            done += 1
            aborts += 1
            rest = rest[new + 1:]
            if aborts > 400:
                raise vlib.ToolError(f"qev {sub}: more than 400 process aborts")
        return read_ndjson(outp) if os.path.exists(outp) else []
    finally:
        shutil.rmtree(files, ignore_errors=True)


def run_parallel(sub, cases, tag, ctx, procs, heavy=0, abort_budget=1):
    if not cases:
        return []
    procs = max(1, min(procs, len(cases) // 50 + 1))
    chunks = [cases[k::procs] for k in range(procs)]
    with concurrent.futures.ThreadPoolExecutor(max_workers=procs) as ex:
        futs = [ex.submit(_qev_resumable, sub, ch, f"{tag}{k}", ctx, heavy, abort_budget) for k, ch in enumerate(chunks)]
        outs = [f.result() for f in futs]
    recs = [r for o in outs for r in o]
    recs.sort(key=lambda r: r["cid"])
    if len(recs) != len(cases):
        raise vlib.ToolError(f"{sub}: {len(recs)} records for {len(cases)} cases")
    for r in recs:
        if r["outcome"] == "setup_error":
            raise vlib.ToolError(f"{sub} could not set up case {r['cid']}: {r.get('err')}")
    return recs


def topology(ctx):
    outp = os.path.join(ctx.work, "topo.ndjson")
    files = os.path.join(ctx.work, "topo.files")
    try:
        vlib.qev(["dist-topo", outp, files], timeout=1200)
    finally:
        shutil.rmtree(files, ignore_errors=True)
    topo = {}
    for r in read_ndjson(outp):
        if r["outcome"] != "full":
            raise vlib.ToolError(f"fault-free distributed run of `{r['stmt']}` at n={r['n']} self={r['self']} is not the single-node answer "
                                 f"({r['outcome']}: {r.get('err')}): no baseline (C09's business)")
        topo[(r["stmt"], r["n"], r["self"])] = r
    return topo


# --------------------------------------------------------------------------------------------
# TLC vector -> concrete case

def realisations(topo):
    """(T, n, self, k) -> [stmt]"""
    m = collections.defaultdict(list)
    for (stmt, n, me), r in topo.items():
        tabs = r["tables"]
        k = tuple(len(r["active"][t]) for t in tabs)
        for t in tabs:
            if r["active"][t] != list(range(len(r["active"][t]))):
                raise vlib.ToolError(f"active shards of {t} are not a prefix: {r['active'][t]} (the model assumes LPT fills empty nodes first)")
        m[(len(tabs), n, me, k)].append(stmt)
    return m


def concrete_fault(kind, kept, tname, shard, rng, light=False):
    f = {"t": tname, "i": shard}
    if kind == "transport":
        f["kind"] = "transport"
    elif kind == "http":
        f.update(kind="http", status=rng.choice([503, 500, 502, 400, 404]))
    elif kind == "digest":
        f.update(kind="digest", variant=rng.choice(["stale", "tamper"]))
    elif kind == "trunc_hdr":
        f["kind"] = "hdr"
    elif kind == "trunc_term":
        f.update(kind="trunc", cls="empty", sel=0)
    elif kind == "trunc_inmsg":
        f.update(kind="trunc", cls="inmsg", sel=rng.randrange(1 << 20))
    elif kind == "trunc_marker":
        f.update(kind="trunc", cls="marker", sel=3 * kept + rng.randrange(3))
    elif kind == "trunc_boundary":
        f.update(kind="trunc", cls="boundary", sel=kept)
    elif kind == "trunc_eos":
        f.update(kind="trunc", cls="eos", sel=rng.randrange(8))
    elif kind == "corrupt":
        # variants 0-3, 5 make the decoder zero 0.8-2 GB (bytes where a continuation marker should be are read as a length): thorough only, within the budget
        f.update(kind="garbage", sel=(rng.choice([4, 6, 7, 8]) if light else rng.randrange(GARBAGE_VARIANTS)))
    else:
        raise vlib.ToolError(f"unknown model kind {kind}")
    return f


def concretise(c, stmt, topo, rng, cid, light=False):
    n, me = c["n"], c["self"] - 1
    tr = topo[(stmt, n, me)]
    tabs = tr["tables"]
    faults, remote = [], []
    for fr in c["frags"]:
        tname, shard = tabs[fr["t"] - 1], fr["i"] - 1
        remote.append([tname, shard])
        if fr["kind"] != "ok":
            faults.append(concrete_fault(fr["kind"], fr["kept"], tname, shard, rng, light))
    rng.shuffle(remote)
    case = {"cid": cid, "stmt": stmt, "n": n, "self": me, "local": "ok", "faults": faults, "order": remote,
            "model": {"kinds": sorted(fr["kind"] for fr in c["frags"]), "locals": c["locals"][:c["T"]], "allowed": sorted(c["allowed"])}}
    bad_local = [t for t in range(c["T"]) if c["locals"][t] == "err"]
    if bad_local:
        case["local"] = "err"
        if len(bad_local) < c["T"]:
            case["local_table"] = tabs[bad_local[0]]
    return case


STMT_WEIGHT = {"group": 0.12, "join": 0.3}    # the engine's GROUP BY / join paths cost 0.2-1 s per execution on this data; the others ~5-30 ms


def choose_stmt(stmts, rng):
    w = [STMT_WEIGHT.get(s, 1.0) for s in stmts]
    return rng.choices(stmts, weights=w, k=1)[0]


def abstract_key(c):
    return (c["shape"], c["n"], c["self"], tuple(c["k"]), tuple(sorted((f["t"], f["i"], f["kind"], f["kept"]) for f in c["frags"])), tuple(c["locals"]))


def nfaults(c):
    return sum(1 for f in c["frags"] if f["kind"] != "ok") + sum(1 for l in c["locals"] if l == "err")


def pick_model_cases(cases, real, rng, budget):
    """dedupe (dec is a model-only coin), keep the realisable ones, stratify by number of faults"""
    seen, uniq = set(), []
    for c in cases:
        k = abstract_key(c)
        if k not in seen:
            seen.add(k)
            uniq.append(c)
    ok = [c for c in uniq if (c["T"], c["n"], c["self"] - 1, tuple(c["k"][:c["T"]])) in real]
    ok.sort(key=lambda c: json.dumps(c, sort_keys=True))
    by = collections.defaultdict(list)
    for c in ok:
        by[min(nfaults(c), 3)].append(c)
    out = list(by[0]) + list(by[1])                # fault-free and every single fault: always
    left = max(0, budget - len(out))
    more = by[2] + by[3]
    rng.shuffle(more)
    out += more[:left]
    return out, len(uniq), len(ok)


# --------------------------------------------------------------------------------------------
# recorded execution -> trace record

def kind_of_send(plan, s):
    """model kind of what the harness did to this fragment (from ITS log, not from the plan alone)"""
    if plan is None:
        return "ok"
    k = plan["kind"]
    if k in ("none", "ok", "droprows", "emptyok"):
        return "ok"           # droprows / emptyok: the transport CLAIMS a complete answer (selftest)
    if k == "transport":
        return "transport"
    if k == "http":
        return "http"
    if k == "hdr":
        return "trunc_hdr"
    if k == "digest":
        return "digest"
    if k == "garbage":
        return "corrupt"
    if k in ("flip", "flip_bodylen"):
        return "ok" if "unresolved" in s else "flip"
    if k == "trunc":
        if "unresolved" in s:
            return "ok"
        cls = s.get("cls")
        if cls == "complete":
            return "ok"
        if cls == "empty":
            return "trunc_term"
        if cls == "inmsg":
            return "trunc_inmsg"
        if cls in ("marker", "boundary"):
            return ("trunc_" + cls) if s.get("lost", 0) > 0 else "trunc_eos"
        if cls in ("eos", "boundary0"):
            return "trunc_eos"
    raise vlib.ToolError(f"cannot classify send {s} under plan {plan}")


def flips_kept_their_rows(kinds, sends):
    """a wrong answer counts as 'garbled' (cell values only) iff every corrupted payload still decoded to the number of
    rows its worker declared: the coordinator could not have noticed; otherwise rows appeared or vanished ('short')"""
    fl = [s for s in sends if "decoded_rows" in s]
    return ("flip" in kinds or "flip_short" in kinds) and bool(fl) and all(s.get("decoded_rows") is not None and s["decoded_rows"] == s.get("rows") for s in fl)


def has_local(rec, t):
    act = rec["active"][t]
    return rec["self"] in act or not act


def trace_rec(rec):
    plans = {(f["t"], f["i"]): f for f in rec.get("faults", [])}
    kinds, lost = [], 0
    sends = rec.get("sends", [])
    if rec["outcome"] == "abort":
        # the process died: the side file has the faulted sends only; the others are taken from the plan
        seen = {(s["t"], s["i"]) for s in sends}
        kinds = [kind_of_send(plans.get((s["t"], s["i"])), s) for s in sends]
        kinds += [("corrupt" if f["kind"] == "garbage" else "flip") for k, f in plans.items() if k not in seen and f["kind"] in ("flip", "flip_bodylen", "garbage")]
    else:
        for s in sends:
            k = kind_of_send(plans.get((s["t"], s["i"])), s)
            if k == "flip" and s.get("decoded_rows") is not None and s["decoded_rows"] < s.get("rows", 0):
                k = "flip_short"
                lost += s["rows"] - s["decoded_rows"]
            kinds.append(k)
            if k in ("trunc_marker", "trunc_boundary") or plans.get((s["t"], s["i"]), {}).get("kind") in ("droprows", "emptyok"):
                lost += s.get("lost", 0)
    locals_ = []
    for t in rec.get("tables", []):
        if not has_local(rec, t):
            locals_.append("none")
        elif rec.get("local") == "err" and rec.get("local_table") in (None, t):
            locals_.append("err")
        else:
            locals_.append("ok")
    o = rec["outcome"]
    if o in ("partial", "wrong"):
        o = "garbled" if flips_kept_their_rows(kinds, sends) else "short"
    return {"cid": rec["cid"], "bind": "inproc", "kinds": kinds, "locals": locals_ or ["none"], "outcome": o, "lost": lost}


def http_trace_rec(rec):
    kinds, lost = [], 0
    for s in rec.get("sends", []):
        if "t" not in s:
            continue
        a = s.get("applied")
        if a in ("none", "skipped"):
            k = "ok"
        elif a == "close":
            k = "transport"
        elif a in ("proxy503", "status"):
            k = "http"
        elif a == "flip":
            k = "flip"
            if s.get("decoded_rows") is not None and s["decoded_rows"] < s.get("rows", 0):
                k = "flip_short"
                lost += s["rows"] - s["decoded_rows"]
        elif a == "cut":
            cls = s["cls"]
            k = {"hdr": "trunc_hdr", "term": "trunc_term", "empty": "trunc_term", "inmsg": "trunc_inmsg", "eos": "trunc_eos", "boundary0": "trunc_eos", "complete": "ok"}.get(cls)
            if k is None:
                k = ("trunc_" + cls) if s.get("lost", 0) > 0 else "trunc_eos"
            if k in ("trunc_marker", "trunc_boundary"):
                lost += s.get("lost", 0)
        else:
            raise vlib.ToolError(f"http proxy could not apply the fault: {s}")
        kinds.append(k)
    o = rec["outcome"]
    if o in ("partial", "wrong"):
        o = "garbled" if flips_kept_their_rows(kinds, [s for s in rec.get("sends", []) if s.get("applied") == "flip"]) else "short"
    if o == "client_err":
        o = "err"
    return {"cid": rec["cid"], "bind": "http", "kinds": kinds, "locals": ["ok"], "outcome": o, "lost": lost}


def tlc_judge(ctx, trecs, dev, name):
    """indices of the records ScatterTrace rejects, and the drift tags"""
    if not trecs:
        return [], []
    path = os.path.join(ctx.work, f"{name}.ndjson")
    write_ndjson(path, trecs)
    res = run_tlc("ScatterTrace", "ScatterTrace_dev.cfg" if dev else "ScatterTrace.cfg", workers=1, timeout=3000, env={"TRACE": path},
                  deque=True, heap="4g", tag=f"C10-{name}")
    ctx.tlc_stats(res, f"ScatterTrace (DEV={dev}) over {len(trecs)} recorded executions")
    acc = [r for k, r in res.prints if k == "ACCEPT"]
    if not acc or acc[0]["n"] != len(trecs):
        log(res.out[-4000:])
        raise vlib.ToolError(f"ScatterTrace did not judge all {len(trecs)} records: {str(res.error)[:300]}")
    bad = sorted(r["line"] - 1 for k, r in res.prints if k == "BAD")
    drift = [(r["line"] - 1, r["what"]) for k, r in res.prints if k == "DRIFT"]
    return bad, drift


def judge(ctx, cases, recs, trecs, name):
    """contract first; what it rejects is re-judged under the one listed deviation"""
    bad, drift = tlc_judge(ctx, trecs, 0, name)
    for i, what in drift:
        bind = trecs[i]["bind"]
        if what == "panic":
            ctx.add("panics_counted_as_errors")
            if ctx.cov.get("panics_counted_as_errors", 0) <= 2:
                ctx.notes.append(f"fidelity: the coordinator panicked instead of returning Err ({bind}, case {recs[i]['cid']}: {recs[i].get('err', '')[:120]}); "
                                 "the server maps a panicking query task to HTTP 500, so it is counted as an error")
        elif what == "false-error":
            ctx.add("false_errors")
            if ctx.cov.get("false_errors", 0) <= 3:
                ctx.notes.append(f"fidelity: error without any injected fault ({bind}, case {recs[i]['cid']}: {recs[i].get('err', '')[:120]})")
    nviol = 0
    if bad:
        sub = [trecs[i] for i in bad]
        bad2, _ = tlc_judge(ctx, sub, 1, name + "-dev")
        still = {bad[j] for j in bad2}
        for i in sorted(bad, key=lambda i: (trecs[i]["outcome"] != "short", recs[i].get("stmt") != "concat", i)):
            r, t = recs[i], trecs[i]
            bind = t["bind"]
            example = {"bind": bind, "stmt": r.get("stmt"), "n": r.get("n"), "faults": r.get("faults"), "outcome": t["outcome"],
                       "rows_got": r.get("rows_got"), "rows_full": r.get("rows_full"), "lost": t["lost"]}
            if i not in still and ctx.is_known(F_SHORT):
                ctx.known(F_SHORT, example)
                continue
            if t["outcome"] == "abort" and ctx.is_known(F_ABORT) and any(s.get("overrun") == 1 for s in r.get("sends", [])):
                ctx.known(F_ABORT, dict(example, err=r.get("err")))
                continue
            nviol += 1
            why = describe(r, t)
            ctx.violation({"bind": bind, "case": cases[i]}, why)
    ctx.add("traces_validated_against_impl", len(trecs) - len(bad))
    return bad


def describe(r, t):
    faulted = [k for k in t["kinds"] if k != "ok"] + (["local shard failed"] if "err" in t["locals"] else [])
    if t["outcome"] in ("short", "garbled"):
        return (f"`{r.get('stmt')}` over {r.get('n')} nodes answered {r.get('rows_got')} rows ({t['outcome']}; the full answer has {r.get('rows_full')}) "
                f"without an error although fragments failed: {faulted or 'none (rows were lost silently)'}")
    if t["outcome"] == "full":
        return f"`{r.get('stmt')}` over {r.get('n')} nodes returned an answer (no error) although fragments failed: {faulted}"
    return f"`{r.get('stmt')}` over {r.get('n')} nodes: outcome {t['outcome']} ({r.get('err', '')[:160]}) with fragments {faulted}"


# --------------------------------------------------------------------------------------------
# sweeps over the bytes of real payloads

def payloads(topo, stmts, ns):
    """distinct remote payloads: (stmt, n, table, shard) -> (self to use, len, layout)"""
    out = {}
    for (stmt, n, me), r in sorted(topo.items()):
        if stmt not in stmts or n not in ns or me != -1:
            continue
        for s in r["sends"]:
            out[(stmt, n, s["t"], s["i"])] = s
    return out


def class_offsets(lay):
    """harness-independent re-derivation of the cut classes from the reported message list"""
    msgs, eos, ln = lay["msgs"], lay["eos"], lay["len"]
    cls = {}
    for off in range(ln + 1):
        if off >= ln:
            c = "complete"
        elif off == 0:
            c = "empty"
        elif off >= eos:
            c = "eos"
        else:
            c = "inmsg"
            for (st, en, _k, _rows) in msgs:
                lost = sum(m[3] for m in msgs if m[1] > off)
                if st < off < st + 4:
                    c = "marker" if lost > 0 else "eos"
                    break
                if st < off < en:
                    c = "inmsg"
                    break
                if off == en:
                    c = "boundary" if lost > 0 else "eos"
                    break
        cls.setdefault(c, []).append(off)
    return cls


def sweep_cases(topo, rng, quick, cid0):
    cases = []
    cid = cid0
    stmts = ["concat", "global", "gunion"] if quick else ["concat", "global", "topn", "gdistinct", "gunion", "gunion2", "tiny", "join"]
    pl = payloads(topo, stmts, [3] if quick else [2, 3, 4])
    keys = sorted(pl)
    for key in keys:
        stmt, n, t, i = key
        s = pl[key]
        cls = class_offsets(s["layout"])
        me = 0 if i != 0 else 1
        if quick:
            offs = []
            for c, lst in sorted(cls.items()):
                if c in ("boundary", "marker", "eos", "empty", "complete"):
                    offs += lst
                else:
                    offs += rng.sample(lst, min(12, len(lst)))
        else:
            # every byte: concat and the two-table gather at every size, the other shapes at n = 3; else every 7th byte inside messages
            full = stmt in ("concat", "gunion") or (n == 3 and stmt != "join")
            offs = list(range(s["len"] + 1)) if full else sorted(set(sum((l if c != "inmsg" else l[::7] for c, l in cls.items()), [])))
        for off in sorted(set(offs)):
            cid += 1
            cases.append({"cid": cid, "stmt": stmt, "n": n, "self": me, "local": "ok", "swept": "trunc",
                          "faults": [{"t": t, "i": i, "kind": "trunc", "off": off}], "expect_cls": None})
    # single-byte corruption
    fl = [k for k in keys if k[0] in ("concat", "global") and k[1] == 3 and k[3] == 2] if quick else [k for k in keys if k[1] == 3 and k[3] in (1, 2) and k[0] in ("concat", "global", "gunion")]
    for key in fl:
        stmt, n, t, i = key
        ln = pl[key]["len"]
        offs = rng.sample(range(ln), min(60, ln)) if quick else list(range(ln))
        for off in sorted(offs):
            for x in ([255] if quick else [255, 1]):
                cid += 1
                cases.append({"cid": cid, "stmt": stmt, "n": n, "self": 0, "local": "ok", "swept": "flip",
                              "faults": [{"t": t, "i": i, "kind": "flip", "off": off, "xor": x}]})
    # one bit of a 64-bit length field: the decoder is told to expect 2^48 more bytes
    for stmt, n, t, i in ((("concat", 3, "t", 1), ("gunion", 3, "u", 2)) if quick else (("concat", 3, "t", 1), ("gunion", 3, "u", 2), ("global", 2, "t", 1), ("topn", 4, "t", 3), ("gdistinct", 3, "t", 2), ("tiny", 2, "w", 1))):
        cid += 1
        cases.append({"cid": cid, "stmt": stmt, "n": n, "self": 0, "local": "ok", "swept": "flip", "faults": [{"t": t, "i": i, "kind": "flip_bodylen"}]})
    return cases


def http_cases(rng, quick, cid0, hlay):
    """hlay: (stmt, n, table, peer) -> {head_len, body_len, layout} from a fault-free pass"""
    cases, cid = [], cid0

    def add(stmt, n, faults, swept=None):
        nonlocal cid
        cid += 1
        c = {"cid": cid, "stmt": stmt, "n": n, "faults": faults}
        if swept:
            c["swept"] = swept
        cases.append(c)

    for (stmt, n, t, peer), s in sorted(hlay.items()):
        # w has fewer shards than nodes: which peer is sent it depends on the (ephemeral) address order of the cluster at hand
        base = {"t": t, "peer": (-1 if t == "w" else peer)}
        for k in ("close", "proxy503"):
            add(stmt, n, [dict(base, kind=k)])
        for st in ([503] if quick else [503, 500, 404, 302]):
            add(stmt, n, [dict(base, kind="status", status=st)])
        cls = class_offsets(s["layout"])
        head = s["head_len"]
        if quick:
            for h in sorted(set([0, 1, 9, 12, 17, head // 2, head - 5, head - 2, head - 1])):
                add(stmt, n, [dict(base, kind="cut", head_off=max(0, h))])
            for c, lst in sorted(cls.items()):
                for off in (lst if c in ("boundary", "marker", "eos", "empty") else rng.sample(lst, min(4, len(lst)))):
                    add(stmt, n, [dict(base, kind="cut", body_off=off)])
        else:
            fullsweep = (stmt == "concat" and n == 2) or (stmt == "gunion" and n == 3) or stmt in ("global", "gdistinct")
            if stmt in ("group", "join"):
                cls = {c: (l if c not in ("inmsg",) else l[::40]) for c, l in cls.items()}
            for h in (range(0, head + 2) if fullsweep else range(0, head + 2, 9)):
                add(stmt, n, [dict(base, kind="cut", head_off=h)], "cut")
            for off in (range(s["body_len"] + 1) if fullsweep else sorted(set(sum((l if c != "inmsg" else l[::7] for c, l in cls.items()), [])))):
                add(stmt, n, [dict(base, kind="cut", body_off=off)], "cut")
            for off in rng.sample(range(s["body_len"]), min(25, s["body_len"])):
                add(stmt, n, [dict(base, kind="flip", off=off)], "flip")
    # combinations: faults on one table's fan-out while the other succeeds; both; two peers
    two = [k for k in sorted(hlay) if k[0] in ("gunion", "gunion2") and k[1] == 3]
    for a, b in itertools.combinations(two, 2):
        if a[0] != b[0]:
            continue
        for ka, kb in (("close", "none"), ("none", "proxy503"), ("cutb", "close"), ("cutb", "cutb"), ("status", "cuth")):
            fs = []
            for (stmt, n, t, peer), kk in ((a, ka), (b, kb)):
                base = {"t": t, "peer": (-1 if t == "w" else peer)}
                if kk == "none":
                    continue
                if kk == "cutb":
                    fs.append(dict(base, kind="cut", cls="boundary", sel=rng.randrange(4)))
                elif kk == "cuth":
                    fs.append(dict(base, kind="cut", head_off=rng.randrange(40)))
                elif kk == "status":
                    fs.append(dict(base, kind="status", status=503))
                else:
                    fs.append(dict(base, kind=kk))
            add(a[0], 3, fs)
    return cases


# --------------------------------------------------------------------------------------------

def model_runs(ctx, quick):
    """(M): exhaustive model + kill matrix (+ in thorough the as-built counterexample as its own run)"""
    if quick:
        jobs = [("main+mut", "Scatter_quick.cfg")]
    else:
        jobs = [("main", c) for c in ("Scatter_thorough.cfg", "Scatter_gather_thorough.cfg", "Scatter_gather3_thorough.cfg")]
        jobs += [("mut", "Scatter_mutants_thorough.cfg"), ("cex", "Scatter_asbuilt_cex.cfg")]

    def one(job):
        what, cfg = job
        return job, run_tlc("Scatter", cfg, workers=(4 if quick else 5), timeout=3300, heap="6g", tag=f"C10-{cfg[:-4]}",
                            coverage=(cfg == "Scatter_thorough.cfg"))
    with concurrent.futures.ThreadPoolExecutor(max_workers=3) as ex:
        results = list(ex.map(one, jobs))
    cases = []
    cover = collections.Counter()
    killed = collections.Counter()
    for (what, cfg), res in results:
        if what == "cex":
            if res.violated != "NoPartial2":
                log(res.out[-3000:])
                raise vlib.ToolError("Scatter_asbuilt_cex: the model of the unchanged tree's decoder no longer violates NoPartial")
            ctx.tlc_stats(res, "Scatter_asbuilt_cex: the as-built decoder (short_stream) violates NoPartial in the model (known finding reproduced)")
            continue
        tlc_must_pass(res, f"Scatter ({cfg})")
        if "main" in what:
            ctx.tlc_stats(res, f"Scatter {cfg}: NoPartial, AnyFault, Contract, FaultFreeAnswers, NothingBeforeAll, BlameIsGuilty; deadlock-free"
                          + ("; kill matrix over the mutants, ContractDev for short_stream" if "mut" in what else ""))
            cases += res.cases
            for a, n in res.coverage.items():
                cover[a] += n
        else:
            ctx.tlc_stats(res, f"Scatter {cfg}: kill matrix over {len(MUTANTS)} non-ideal designs; ContractDev holds for short_stream")
        for k, r in res.prints:
            if k == "KILL":
                killed[r["mut"]] += 1
    for m in MUTANTS:
        if killed[m] == 0:
            raise vlib.ToolError(f"the contract does not reject mutant {m} in any state: the invariants are too weak")
    ctx.set("mutants_rejected_by_the_contract", dict(sorted(killed.items())))
    # every reply action was taken: each kind occurs in some terminal state (TLC reports them all under `Arrive`)
    seen_kinds = {f["kind"] for c in cases for f in c["frags"]} | {"local_err" for c in cases if "err" in c["locals"]}
    for k in MODEL_KINDS + ["ok", "local_err"]:
        if k not in seen_kinds:
            raise vlib.ToolError(f"Scatter: no terminal state with a fragment of kind {k} (action never taken)")
    if not quick:
        for a in ACTIONS:
            if cover.get(a, 0) == 0:
                raise vlib.ToolError(f"Scatter: action {a} never taken (coverage)")
    return cases


def run(ctx):
    rng = random.Random(ctx.seed)
    quick = ctx.tier == "quick"
    with concurrent.futures.ThreadPoolExecutor(max_workers=2) as ex:
        ftopo = ex.submit(topology, ctx)
        fmodel = ex.submit(model_runs, ctx, quick)
        topo = ftopo.result()
        mcases = fmodel.result()
    shapes = collections.Counter(r["shape"] for r in topo.values())
    for s in ("concat", "two_phase", "top_n", "gather"):
        if shapes[s] == 0:
            raise vlib.ToolError(f"no statement takes the {s} shape any more (plan_distributed / plan_gather changed): pick other statements")
    ctx.set("statement_shapes", {k: sorted({r["shape"] for r in topo.values() if r["stmt"] == k}) for k in sorted({k[0] for k in topo})})
    if len(mcases) < 1000:
        raise vlib.ToolError(f"Scatter emitted only {len(mcases)} terminal states")
    real = realisations(topo)
    picked, n_uniq, n_real = pick_model_cases(mcases, real, rng, 1100 if quick else 24000)
    ctx.set("tlc_terminal_states", len(mcases))
    ctx.set("tlc_distinct_fault_vectors", n_uniq)
    ctx.set("tlc_fault_vectors_realisable_on_the_tables", n_real)
    cases, cid = [], 0
    for c in picked:
        stmts = real[(c["T"], c["n"], c["self"] - 1, tuple(c["k"][:c["T"]]))]
        many = (not quick) and nfaults(c) <= 1
        for stmt in ([s_ for s_ in stmts if s_ not in STMT_WEIGHT] + [choose_stmt([s_ for s_ in stmts if s_ in STMT_WEIGHT] or stmts, rng)] if many else [choose_stmt(stmts, rng)]):
            cid += 1
            cases.append(concretise(c, stmt, topo, rng, cid, light=quick))
    nvec = len(cases)
    cases += sweep_cases(topo, rng, quick, 1_000_000)
    recs = run_parallel("dist-replay", cases, "rep", ctx, 3 if quick else 6, heavy=(0 if quick else 1), abort_budget=(2 if quick else 3))
    # a corrupted length that would make the decoder zero 48 MB .. 16 TB is run only within a small per-process budget
    skipped = {r["cid"] for r in recs if r["outcome"] == "skipped"}
    ctx.set("corruptions_skipped_as_too_heavy", len(skipped))
    cases = [c for c in cases if c["cid"] not in skipped]
    recs = [r for r in recs if r["cid"] not in skipped]
    nvec = sum(1 for c in cases if c["cid"] < 1_000_000)
    trecs = [trace_rec(r) for r in recs]

    # ---- second binding: real sockets
    hprobe = []
    hstm = [("concat", 2), ("gunion", 3)] if quick else [("concat", 2), ("concat", 3), ("group", 2), ("global", 2), ("topn", 3), ("join", 2), ("gdistinct", 2), ("gunion", 2), ("gunion", 3), ("gunion2", 3), ("tiny", 3)]
    for k, (stmt, n) in enumerate(sorted(hstm, key=lambda x: x[1])):
        hprobe.append({"cid": 2_000_000 + k, "stmt": stmt, "n": n, "faults": [], "layout": 1})
    pr = run_parallel("dist-http", hprobe, "hprobe", ctx, 1)
    hlay = {}
    for r in pr:
        if r["outcome"] != "full" or r.get("distributed") != "true":
            raise vlib.ToolError(f"fault-free POST /sql?distributed=1 of `{r['stmt']}` over {r['n']} nodes: {r['outcome']} distributed={r.get('distributed')} {r.get('err')}")
        for s in r["sends"]:
            if "layout" in s:
                hlay[(r["stmt"], r["n"], s["t"], s["peer"])] = s
    if not hlay:
        raise vlib.ToolError("no /fragment request went through the proxy")
    hcases = sorted(http_cases(rng, quick, 2_100_000, hlay), key=lambda c: (c["n"], c["cid"]))
    hrecs = run_parallel("dist-http", hcases, "http", ctx, 1 if quick else 3, abort_budget=1)
    htrecs = [http_trace_rec(r) for r in hrecs]
    hcases_by = {c["cid"]: c for c in hcases}
    hskip = sum(1 for r in hrecs for s in r.get("sends", []) if s.get("applied") == "skipped")
    ctx.set("http_corruptions_skipped_as_too_heavy", hskip)
    # one TLC pass judges the executions of both bindings
    judge(ctx, cases + [hcases_by[r["cid"]] for r in hrecs], recs + hrecs, trecs + htrecs, "exec")

    # ---- evidence, vacuity
    evidence(ctx, topo, cases, recs, trecs, hrecs, htrecs, nvec, quick)


def evidence(ctx, topo, cases, recs, trecs, hrecs, htrecs, nvec, quick):
    nontriv = set()
    tab = collections.Counter()
    kinds_seen = collections.Counter()
    for c, r, t in zip(cases, recs, trecs):
        ctx.add("evaluations")
        faulted = [k for k in t["kinds"] if k != "ok"]
        if faulted or "err" in t["locals"]:
            nontriv.add(vlib.chash([c["stmt"], c["n"], c["self"], c.get("local"), c.get("local_table"), c["faults"]]))
        for k in faulted:
            kinds_seen["flip" if k == "flip_short" else k] += 1
            if k == "flip_short":
                ctx.add("flips_that_shortened_the_decoded_stream")
        if "err" in t["locals"]:
            kinds_seen["local_err"] += 1
        tab[f"{r.get('shape')}/{'+'.join(sorted(set(faulted))) or 'none'}{'/local_err' if 'err' in t['locals'] else ''}/{t['outcome']}"] += 1
        if not faulted and "err" not in t["locals"] and t["outcome"] != "full":
            raise vlib.ToolError(f"a run without any fault did not return the full answer: case {c['cid']} {r.get('err')}")
    htab = collections.Counter()
    hk = collections.Counter()
    for r, t in zip(hrecs, htrecs):
        ctx.add("evaluations")
        faulted = [k for k in t["kinds"] if k != "ok"]
        if faulted:
            nontriv.add(vlib.chash(["http", r["stmt"], r["n"], r["faults"]]))
        for k in faulted:
            hk[k] += 1
        htab[f"{'+'.join(sorted(set(faulted))) or 'none'}/{t['outcome']}"] += 1
    ctx.set("distinct_nontrivial", len(nontriv))
    ctx.set("inproc_fault_vectors_replayed", nvec)
    ctx.set("inproc_byte_offset_cases", len(cases) - nvec)
    ctx.set("http_cases", len(hrecs))
    big = sorted(tab.items(), key=lambda kv: -kv[1])
    ctx.set("inproc_outcomes_top", dict(big[:40]))
    ctx.set("inproc_fault_kinds_exercised", dict(sorted(kinds_seen.items())))
    ctx.set("http_outcomes", dict(sorted(htab.items())))
    ctx.set("http_fault_kinds_exercised", dict(sorted(hk.items())))
    for k in MODEL_KINDS + ["flip", "local_err"]:
        if kinds_seen[k] == 0:
            raise vlib.ToolError(f"fault kind {k} was never exercised on the real coordinator (in-process binding)")
    for k in ("transport", "http", "trunc_hdr", "trunc_term", "trunc_inmsg", "trunc_marker", "trunc_boundary", "trunc_eos"):
        if hk[k] == 0:
            raise vlib.ToolError(f"fault kind {k} was never exercised over real sockets")
    shapes_faulted = {r.get("shape") for r, t in zip(recs, trecs) if any(k != "ok" for k in t["kinds"])}
    for s in ("concat", "two_phase", "top_n", "gather"):
        if s not in shapes_faulted:
            raise vlib.ToolError(f"no faulted execution of shape {s}")
    errs = sum(1 for t in trecs if t["outcome"] == "err")
    fulls = sum(1 for t in trecs if t["outcome"] == "full")
    if errs < 100 or fulls < 20:
        raise vlib.ToolError(f"coverage collapse: {errs} errors, {fulls} full answers")
    # fidelity: the coordinator sent exactly the active remote shards, to the right addresses
    wrong_sends = 0
    for r in recs:
        if r["outcome"] in ("abort", "panic"):
            continue
        want = sorted((t, i) for t in r["tables"] for i in r["active"][t] if i != r["self"])
        got = sorted((s["t"], s["i"]) for s in r["sends"])
        if want != got or any(s["addr"] != f"10.0.0.{s['i'] + 1}:7777" for s in r["sends"]) or any(s.get("order_timeout") for s in r["sends"]):
            wrong_sends += 1
    if wrong_sends:
        ctx.notes.append(f"fidelity: in {wrong_sends} executions the fragments sent differ from the active remote shards the model expects (or were not in flight together)")
    ctx.set("fanout_mismatches", wrong_sends)
    mism = sum(1 for c, t in zip(cases, trecs) if "model" in c and ({"err": "err", "full": "full"}.get(t["outcome"], "short") not in c["model"]["allowed"]))
    ctx.set("outcomes_outside_the_model_prediction", mism)
    for k in (0, len(recs) // 3, len(recs) // 2, len(recs) - 1):
        r = recs[k]
        ctx.sample({"bind": "inproc", "stmt": r["stmt"], "n": r["n"], "self": r["self"], "shape": r.get("shape"), "local": r.get("local"), "faults": r["faults"],
                    "outcome": r["outcome"], "rows_got": r.get("rows_got"), "rows_full": r.get("rows_full"), "err": r.get("err", "")[:140]})
    for k in (0, len(hrecs) // 2):
        r = hrecs[k]
        ctx.sample({"bind": "http", "stmt": r["stmt"], "n": r["n"], "faults": r["faults"], "status": r.get("status"), "outcome": r["outcome"], "err": r.get("err", "")[:140]})
    ctx.set("exhaustive", True)
    ctx.set("rule", "TLC (Scatter.tla) enumerates every reachable state of the coordinator model in the bounds: cluster sizes, initiator position (or absent), "
            "active shards per table, every fault kind at every in-flight remote shard (transport, HTTP, digest, cut in the head / at the terminator / inside a message / "
            "inside a continuation marker / at a message boundary / inside the end-of-stream marker, corrupt), the initiator's own shard failing, all reply orders, scatter "
            "and gather (two fan-outs) shapes. Terminal fault vectors realisable on the test tables are replayed on the real execute_any_distributed through a fault-injecting "
            "FragmentTransport (all single-fault vectors and fault-free ones always; multi-fault vectors sampled by the seed up to the tier budget), then every byte offset "
            "(thorough) or every boundary/marker/eos offset plus samples (quick) of real fragment payloads as a cut, single-byte corruptions, and the same fault classes through "
            "a TCP proxy between spawned nodes. distinct_nontrivial = distinct executed cases in which at least one shard (remote or the initiator's own) was faulted.")
    ctx.assumptions += [
        "trunc_eos (every row delivered, only the end-of-stream marker or row-less trailing messages lost): an error OR the complete answer passes; a partial answer never does",
        "single-byte corruption (flip): without a payload checksum a changed value byte cannot be detected by the coordinator; the contract rules out an answer with other row counts, "
        "a hang and a process abort, and accepts an error, the full answer, or the full row count with garbled cells (counted in evidence)",
        "a panic inside the coordinator is counted where an error is allowed (the server turns a panicking query task into HTTP 500) and reported as a fidelity note",
        "an error in a run without any injected fault is a tool error (no baseline), not a violation; equality of the fault-free distributed answer with the single-node answer is C09's property",
        "the initiator's own shard is failed through a TableProvider whose shard cannot be scanned; stalls / timeouts are C16's business and are not injected here",
    ]


def replay(ctx, obj):
    bind = obj["case"]["bind"]
    c = obj["case"]["case"]
    if bind == "http":
        recs = run_parallel("dist-http", [c], "replay", ctx, 1)
        trecs = [http_trace_rec(r) for r in recs]
    else:
        recs = run_parallel("dist-replay", [c], "replay", ctx, 1)
        trecs = [trace_rec(r) for r in recs]
    judge(ctx, [c], recs, trecs, "replay")
    ctx.add("evaluations")
    ctx.set("distinct_nontrivial", 1)
    ctx.sample({"record": trecs[0], "err": recs[0].get("err")})


def selftest(ctx):
    missed = 0
    base = [
        {"cid": 1, "stmt": "concat", "n": 3, "self": 0, "local": "ok", "faults": []},
        {"cid": 2, "stmt": "concat", "n": 3, "self": 0, "local": "ok", "faults": [{"t": "t", "i": 1, "kind": "transport"}]},
        {"cid": 3, "stmt": "group", "n": 3, "self": 0, "local": "ok", "faults": [{"t": "t", "i": 2, "kind": "http", "status": 503}]},
        {"cid": 4, "stmt": "gunion", "n": 2, "self": 0, "local": "ok", "faults": [{"t": "u", "i": 1, "kind": "trunc", "cls": "inmsg", "sel": 77}]},
        # transports that stay well-formed but silently lose rows (what filter_map(Result::ok) / '503 = empty result' amount to)
        {"cid": 5, "stmt": "concat", "n": 3, "self": 0, "local": "ok", "faults": [{"t": "t", "i": 1, "kind": "droprows"}]},
        {"cid": 6, "stmt": "group", "n": 3, "self": 0, "local": "ok", "faults": [{"t": "t", "i": 2, "kind": "emptyok"}]},
        {"cid": 7, "stmt": "gunion", "n": 3, "self": 0, "local": "ok", "faults": [{"t": "u", "i": 1, "kind": "emptyok"}]},
        {"cid": 8, "stmt": "topn", "n": 2, "self": 1, "local": "ok", "faults": [{"t": "t", "i": 0, "kind": "emptyok"}]},
    ]
    recs = run_parallel("dist-replay", base, "selftest", ctx, 1)
    trecs = [trace_rec(r) for r in recs]
    if trecs[0]["outcome"] != "full" or any(t["outcome"] != "err" for t in trecs[1:4]):
        print("selftest: a plain fault did not fail the query, or the fault-free run did not answer")
        return 1
    tests = []   # (record, description); every one of them must be rejected under DEV=0 AND under DEV=1
    for i, why in ((1, "transport error, but the query is reported as answered"), (2, "HTTP 503, but the query is reported as answered"),
                   (3, "payload cut inside a message, but the query is reported as answered")):
        t = copy.deepcopy(trecs[i])
        t["outcome"] = "full"
        tests.append((t, "expectation flipped: " + why))
    t = copy.deepcopy(trecs[0])
    t["outcome"] = "short"
    tests.append((t, "expectation flipped: a fault-free run reported with missing rows"))
    for r, t in zip(recs[4:], trecs[4:]):
        if t["outcome"] != "short":
            print(f"selftest: MISSED: the transport dropped {t['lost']} rows of `{r['stmt']}` but the answer was classified {t['outcome']}")
            missed += 1
        else:
            tests.append((t, f"`{r['stmt']}` answered {r.get('rows_got')} rows / other values than the full {r.get('rows_full')}-row answer after a transport silently dropped rows"))
    tests.append(({"cid": 9, "bind": "inproc", "kinds": ["trunc_boundary", "transport"], "locals": ["ok"], "outcome": "short", "lost": 5},
                  "short answer with a boundary cut AND a dead node (outside the known finding's signature)"))
    tests.append(({"cid": 10, "bind": "inproc", "kinds": ["trunc_boundary", "ok"], "locals": ["ok"], "outcome": "short", "lost": 0},
                  "short answer although the cut withheld no row"))
    tests.append(({"cid": 11, "bind": "inproc", "kinds": ["flip", "ok"], "locals": ["ok"], "outcome": "short", "lost": 0},
                  "a single corrupted byte changed the number of rows of the answer"))
    tests.append(({"cid": 12, "bind": "inproc", "kinds": ["ok", "ok"], "locals": ["err"], "outcome": "full", "lost": 0},
                  "the initiator's own shard failed, but the query is reported as answered"))
    for k, (t, _) in enumerate(tests):
        t["cid"] = 100 + k
    good = trecs[:4]
    b0, _ = tlc_judge(ctx, good + [t for t, _ in tests], 0, "selftest-dev0")
    b1, _ = tlc_judge(ctx, good + [t for t, _ in tests], 1, "selftest-dev1")
    if any(i < len(good) for i in b0 + b1):
        print("selftest: the unmodified executions are rejected")
        return 1
    for k, (t, why) in enumerate(tests):
        ok = (len(good) + k) in b0 and (len(good) + k) in b1
        print(f"selftest: {'rejected' if ok else 'ACCEPTED (binding lost)'}: {why}")
        missed += 0 if ok else 1
    # the known deviation excuses exactly its own shape
    t = {"cid": 200, "bind": "inproc", "kinds": ["trunc_boundary", "ok"], "locals": ["ok"], "outcome": "short", "lost": 5}
    b0, _ = tlc_judge(ctx, [t], 0, "selftest-dev0")
    b1, _ = tlc_judge(ctx, [t], 1, "selftest-dev1")
    ok = bool(b0) and not b1
    print(f"selftest: {'ok' if ok else 'WRONG'}: a boundary cut answered short is rejected by the contract and explained only by the listed deviation")
    missed += 0 if ok else 1
    # the model side: every named mutant must be rejected by the contract
    res = run_tlc("Scatter", "Scatter_quick.cfg", workers=4, timeout=1800, tag="C10-selftest-mut")
    killed = collections.Counter(r["mut"] for k, r in res.prints if k == "KILL")
    for m in MUTANTS:
        print(f"selftest: model mutant {m}: {'rejected by the contract in %d states' % killed[m] if killed[m] else 'SURVIVES'}")
        missed += 0 if killed[m] else 1
    return 1 if missed else 0
