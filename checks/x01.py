"""X01 — stand-alone wrapper of the sub-model "NameRes" (checks/nameres.py; parent property C01).

./check X01 --tier quick|thorough|--selftest|--replay <file>.  Evidence goes to work/evidence_extra/X01.json.
Inside the parent check the lead calls nameres.run_sub(ctx) and routes replay files whose
obj["case"]["kind"] == "nameres" to nameres.replay_sub(ctx, obj).
"""
import nameres

LEVEL = "model_checking"


def run(ctx):
    nameres.run_sub(ctx)
    ctx.set("rule", "X01 alone: " + ctx.cov["nameres"]["rule"])
    ctx.cov.setdefault("distinct_nontrivial", 0)
    ctx.cov.setdefault("evaluations", 0)
    ctx.cov.setdefault("traces_validated_against_impl", 0)
    if ctx.tier == "thorough":
        # the seeded spec mutants must stay refuted by the laws (vacuity guard of the model side)
        import vlib
        alive = nameres.run_mutants(ctx)
        if alive:
            raise vlib.ToolError(f"seeded spec mutants not refuted by any law: {alive}")
        ctx.set("nameres_model_negative_runs", len(nameres.MUTANTS))


def replay(ctx, obj):
    nameres.replay_sub(ctx, obj)
    ctx.cov.setdefault("distinct_nontrivial", 1)
    ctx.cov.setdefault("evaluations", 0)


def selftest(ctx):
    return nameres.selftest_sub(ctx)
