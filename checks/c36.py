"""C36 — scalar functions compute their documented values (spec/Funcs.tla; PARTIAL by design).

TLC enumerates, for every function of the specifiable subset, every argument tuple of the configured
domains together with the documented (Trino) value, and for every null-strict function of the binder's
table the NULL rule.  Each case is rendered three ways — all-literal `SELECT f(lits)`, all-column
`SELECT f(c1..cn) FROM t` over a table holding one row per case, and first-argument-column with literal
tail — executed on the real engine (ExecutionContext::sql) and the single result cell is compared.

Verdicts: value == documented value -> ok; an ERROR is not a wrong value (counted, listed in notes);
a different value / a non-NULL result where NULL is documented -> VIOLATION unless its signature
(statement template | path | argument class) is listed in findings/funcs/C36.json under a function whose
known_findings.jsonl line `C36/<FUNCTION>` is open (KNOWN-FINDING).  pin = 0 cases (documentation silent)
only produce drift notes.
"""
import collections
import json
import os
import threading

import vlib
import funcs
from vlib import run_tlc, tlc_must_pass

LEVEL = "exploration"
FINDINGS = os.path.join(vlib.ROOT, "findings", "funcs", "C36.json")
PARTS = "abcd"
MIN_CASES = {"quick": 12000, "thorough": 120000}
OUT_OF_SCOPE = ("hashes/HMAC/CRC, regex, JSON, URL, base-N codecs, trig/log/exp/power, statistical CDFs, date "
                "formatting/parsing, RANDOM/UUID/NOW, array and vector functions: only their NULL rule is checked "
                "(where Trino documents null-strictness), never their values")


def load_keys():
    if not os.path.exists(FINDINGS):
        return {}
    return json.load(open(FINDINGS)).get("keys", {})


def gen_cases(ctx):
    cases = []
    results = {}
    errs = []

    def one(p):
        try:
            res = run_tlc("Funcs", f"Funcs_{ctx.tier}_{p}.cfg", workers=1, timeout=3000, heap="4g", tag=f"C36-{p}")
            tlc_must_pass(res, f"Funcs part {p}")
            results[p] = res
        except Exception as e:      # noqa
            errs.append(e)

    ths = [threading.Thread(target=one, args=(p,)) for p in PARTS]
    for t in ths:
        t.start()
    for t in ths:
        t.join()
    if errs:
        raise errs[0] if isinstance(errs[0], vlib.ToolError) else vlib.ToolError(str(errs[0]))
    for p in PARTS:
        res = results[p]
        ctx.tlc_stats(res, f"Funcs.tla slice {p}: definitions' lemmas + emission of the case family")
        n = [r["n"] for k, r in res.prints if k == "COUNT"]
        if not n or n[0] != len(res.cases):
            raise vlib.ToolError(f"Funcs slice {p}: emitted {len(res.cases)} cases, spec counts {n}")
        cases += res.cases
    cases.sort(key=lambda c: json.dumps(c, sort_keys=True))
    return cases


def execute(ctx, cases, paths=("lit", "col", "mix")):
    r = funcs.Runner(ctx, procs=4)
    out = {}
    if "lit" in paths:
        out["lit"] = funcs.run_literal(r, cases)
    if "col" in paths:
        out["col"] = funcs.run_columns(r, cases, "col")
    if "mix" in paths:
        out["mix"] = funcs.run_columns(r, cases, "mix")
    return out, r.queries


def replay_payload(case, path, res):
    p = {"case": case, "path": path, "sql": res.get("sql")}
    if "table" in res:
        p["table"] = res["table"]
        p["row"] = res.get("row", 0)
    return p


def run(ctx):
    cases = gen_cases(ctx)
    if len(cases) < MIN_CASES[ctx.tier]:
        raise vlib.ToolError(f"Funcs emitted only {len(cases)} cases")
    keys = load_keys()
    freeze = os.environ.get("C36_FREEZE") == "1"
    results, nq = execute(ctx, cases)
    stat = collections.Counter()
    perf = collections.defaultdict(collections.Counter)
    drift = collections.Counter()
    errnotes = collections.defaultdict(collections.Counter)
    panics = collections.Counter()
    pertmpl = collections.Counter()
    frozen = {}
    nontrivial = set()
    for path, rs in results.items():
        for c, x in zip(cases, rs):
            v, why = funcs.judge(c, x)
            if v == "skip":
                continue
            ctx.add("evaluations")
            stat[f"{path}:{v}"] += 1
            perf[c["f"]][v] += 1
            pertmpl[c["tmpl"]] += 1
            if v == "ok":
                if c["exp"]["n"] == 0 or any(a["n"] == 1 for a in c["args"]):
                    nontrivial.add(json.dumps([c["tmpl"], c["args"]], sort_keys=True))
            elif v == "err":
                errnotes[c["tmpl"]][why[:70]] += 1
            elif v in ("panic", "hang"):
                panics[f"{c['tmpl']}: {v} {why[:100]}"] += 1
            elif v == "wrong":
                if c["pin"] == 0:
                    drift[c["tmpl"]] += 1
                    continue
                k = funcs.key_of(c, path)
                fid = "C36/" + c["f"]
                if freeze:
                    e = frozen.setdefault(k, {"f": c["f"], "n": 0, "example": why[:300]})
                    e["n"] += 1
                if k in keys and ctx.is_known(fid):
                    ctx.known(fid, {"signature": k, "why": why[:240]})
                elif not freeze:
                    ctx.violation(replay_payload(c, path, x), why)
    # vacuity: the family must overwhelmingly produce VALUES (an error is a permitted outcome for one case,
    # but nothing can be concluded from a run in which the engine stopped answering)
    judged = sum(stat.values())
    answered = sum(n for k, n in stat.items() if k.endswith(":ok") or k.endswith(":wrong"))
    if judged == 0 or answered / judged < 0.80:
        raise vlib.ToolError(f"coverage collapse: only {answered}/{judged} cases returned a value")
    fams = {c["f"] for c in cases}
    if len(fams) < 150:
        raise vlib.ToolError(f"only {len(fams)} functions in the emitted family")
    ctx.set("outcomes", dict(stat))
    ctx.set("functions_in_family", len(fams))
    ctx.set("functions_with_values_checked", sorted(f for f in fams if perf[f]["ok"] + perf[f]["wrong"] > 2))
    ctx.set("queries_executed", nq)
    ctx.set("cases", len(cases))
    ctx.set("distinct_nontrivial", len(nontrivial))
    ctx.set("traces_validated_against_impl", len(cases))
    ctx.set("rule", "a case = (statement template, argument tuple, documented value) enumerated by TLC from Funcs.tla; "
            "non-trivial = distinct (template, arguments) whose engine value was compared and agreed with a non-NULL documented "
            "value or with a NULL required by a NULL argument; evaluations = case x evaluation path (literal / column / first-column)")
    ctx.set("exhaustive", True)
    ctx.set("not_covered", OUT_OF_SCOPE)
    erring = sorted(t for t, cnt in errnotes.items() if sum(cnt.values()) >= pertmpl[t])
    ctx.set("templates_always_erroring", erring)
    if erring:
        ctx.notes.append("documented spellings that ERROR on ordinary arguments on every path (not a wrong value; counted): "
                         + "; ".join(f"{t} [{errnotes[t].most_common(1)[0][0]}]" for t in erring[:40]))
    if drift:
        ctx.notes.append("drift on arguments the documentation does not pin (pin=0, no verdict): "
                         + ", ".join(f"{t} x{n}" for t, n in sorted(drift.items())))
    if panics:
        ctx.notes.append("panics/hangs met while evaluating scalar functions (C29's subject, not a wrong value): "
                         + "; ".join(f"{k} x{n}" for k, n in sorted(panics.items())[:12]))
    ctx.set("panics_met", sum(panics.values()))
    for c in cases[:2] + cases[len(cases) // 2: len(cases) // 2 + 2] + cases[-2:]:
        ctx.sample({"tmpl": c["tmpl"], "args": [funcs.show(a) for a in c["args"]], "documented": funcs.show(c["exp"]), "pin": c["pin"]})
    ctx.assumptions += [
        "the documented value is Trino's (docs/functions) as transcribed in Funcs.tla; LEFT/RIGHT/REPEAT/ASCII/ENDS_WITH, which "
        "Trino does not have, use the common SQL definition on non-negative counts",
        "result TYPE is not judged (C30): an integral double equal to the documented integer is accepted",
        "NULL literals are written CAST(NULL AS <type>) (a bare NULL literal is untyped and mostly a type error)",
        "boundary integers are order-only tokens concretized to +-(2^31-1), +-2^31, +-(2^63-1), -2^63 by lib/funcs.py",
        OUT_OF_SCOPE]
    if freeze:
        os.makedirs(os.path.dirname(FINDINGS), exist_ok=True)
        old = load_keys()
        old.update(frozen)
        json.dump({"comment": "C36 known deviations of the unchanged tree: signature = statement template | evaluation path | "
                              "argument class (lib/funcs.py features()); regenerate with C36_FREEZE=1 ./check C36 --tier thorough "
                              "(and quick) after reviewing every new entry", "keys": dict(sorted(old.items()))},
                  open(FINDINGS, "w"), indent=1, ensure_ascii=False)
        vlib.log(f"[freeze] {len(frozen)} signatures observed, {len(old)} listed")


def rerun(ctx, obj):
    c, path = obj["case"], obj["path"]
    r = funcs.Runner(ctx, procs=1)
    if path == "lit" or "table" not in obj:
        return funcs.run_literal(r, [c])[0]
    outs = r.run([{"tables": [obj["table"]], "sqls": [obj["sql"]]}], "replay")[0][0]
    if outs["k"] != "rows":
        return {"k": outs["k"], "msg": outs.get("msg", ""), "cls": outs.get("cls", ""), "sql": obj["sql"]}
    for row in outs["rows"]:
        if row[0] is not None and row[0].get("i") == obj["row"]:
            return {"k": "val", "cell": row[1], "sql": obj["sql"]}
    return {"k": "shape", "msg": "row missing", "sql": obj["sql"]}


def replay(ctx, obj):
    o = obj["case"]
    x = rerun(ctx, o)
    v, why = funcs.judge(o["case"], x)
    ctx.add("evaluations")
    ctx.set("distinct_nontrivial", 1)
    ctx.sample({"sql": x.get("sql"), "verdict": v})
    if v == "wrong":
        ctx.violation(o, why)


def selftest(ctx):
    """Corrupt the documented value of cases the engine gets right and require every corruption to be
    reported as a violation (not absorbed by a known-finding signature, not lost)."""
    res = run_tlc("Funcs", "Funcs_quick_d.cfg", workers=1, timeout=1200, heap="4g", tag="C36-self")
    tlc_must_pass(res, "Funcs part d")
    cases = sorted(res.cases, key=lambda c: json.dumps(c, sort_keys=True))
    pick = []
    seen = set()
    for c in cases:
        if c["f"] in seen or c["pin"] == 0:
            continue
        seen.add(c["f"])
        pick.append(c)
    results, _ = execute(ctx, pick, paths=("lit", "col"))
    keys = load_keys()
    good = [i for i, c in enumerate(pick) if all(funcs.judge(c, results[p][i])[0] == "ok" for p in results)
            and not any(funcs.key_of(c, p) in keys for p in results)]
    if len(good) < 20:
        vlib.log(f"selftest: only {len(good)} agreeing cases to corrupt")
        return 1
    bad = []
    for i in good:
        c = json.loads(json.dumps(pick[i]))
        e = c["exp"]
        if e["n"] == 1:
            e["n"], e["t"], e["i"] = 0, "int", 0          # NULL documented -> claim 0
        elif e["t"] == "str":
            e["s"] = e["s"] + [97]
        else:
            e["i"] = e["i"] + 1
        bad.append(c)
    missed = 0
    for p in results:
        for i, c in zip(good, bad):
            v, _ = funcs.judge(c, results[p][i])
            absorbed = funcs.key_of(c, p) in keys and ctx.is_known("C36/" + c["f"])
            if v != "wrong" or absorbed:
                missed += 1
                vlib.log(f"selftest: corruption not reported: {c['tmpl']} {p} verdict={v} absorbed={absorbed}")
    # a dropped result row must be noticed as well
    c0 = pick[good[0]]
    x = dict(results["col"][good[0]])
    x["cell"] = None if c0["exp"]["n"] == 0 else {"i": 1}
    if funcs.judge(c0, x)[0] != "wrong":
        missed += 1
    print(f"selftest: {len(bad) * len(results) + 1} corruptions, {missed} missed")
    return 0 if missed == 0 else 1
