"""C23 — Subqueries follow SQL semantics (SqlSem.tla as the oracle)."""
import sqlprop, sqlcheck
LEVEL = "model_checking"

def run(ctx):
    for fam in ['sub']:
        sqlprop.laws(ctx, f"SqlLaws_{fam}_{ctx.tier}.cfg")
    sqlprop.run_sql_property(ctx, corpus=['subq', 'subq2'], seeded=[('single', {'subq': True, 'null_p': 0.3, 'dom': 2, 'corr': False})], quick_n=400, seeded_quick=250,
        rule='EXISTS / NOT EXISTS / IN / NOT IN / scalar subqueries, correlated and uncorrelated, in WHERE and SELECT, NULLs on either side, empty results, duplicate correlation values.')

def replay(ctx, obj):
    sqlcheck.replay_sql(ctx, obj)

def selftest(ctx):
    return sqlprop.selftest(ctx, ['sub'])
