"""C11 — split enumeration covers every row exactly once, canonically (Splits.tla / SplitsOps.tla / SplitsTrace.tla)."""
import concurrent.futures as cf
import copy, json, os, random, shutil
import vlib
from vlib import run_tlc, tlc_must_pass, qev, write_ndjson, read_ndjson, validate_trace

LEVEL = "model_checking"
FINDING = "C11/same-name-files"
MUT_KINDS = ["rename", "rowplus", "bytesplus", "rgplus", "rgminus", "fileplus", "fileminus"]

def vacuity(ctx, msg):
    """A coverage hole is a tool error - unless the run already found violations: a defect may be the very
    reason a class of outcomes disappeared, and the verdict must not be masked by the guard."""
    if ctx.violations:
        ctx.notes.append("vacuity guard not enforced because violations were found: " + msg)
        return
    raise vlib.ToolError(msg)



# ------------------------------------------------------------------ (M) the model
def model_runs(ctx):
    t = ctx.tier
    if t == "quick":
        runs = [("Splits_quick.cfg", "ImplEnumerate meets contract (a)-(e), <=2 files", None),
                ("Splits_quick3.cfg", "3 files: all 6 listings + every single-attribute mutant", None),
                ("Splits_max_quick.cfg", "MAX-clamp regime (scaled constants) + mutants", None)]
    else:
        runs = [("Splits_thorough.cfg", "ImplEnumerate meets contract (a)-(e), <=3 files x <=3 row groups, rows 0..4", None),
                ("Splits_mut_thorough.cfg", "every single-attribute mutant changes the digest iff it changes the content", None),
                ("Splits_max_thorough.cfg", "MAX-clamp regime (scaled constants) + mutants", None),
                ("Splits_quick3.cfg", "3 files: all 6 listings + every single-attribute mutant", None)]
    runs += [("Splits_dup_ok.cfg", "two files share a name: everything but (d) still holds", None),
             ("Splits_dup_cex.cfg", "two files share a name: (d) fails in the modelled algorithm", "InvariantUnderListing")]
    wk = 3 if t == "quick" else 8

    def one(r):
        cfg, label, expect = r
        return r, run_tlc("Splits", cfg, workers=(wk if "thorough" in cfg else 3), timeout=3000, heap="4g",
                          tag="C11-" + cfg[:-4], coverage=(t == "thorough" and "dup" not in cfg and cfg != "Splits_thorough.cfg"))
    with cf.ThreadPoolExecutor(max_workers=(6 if t == "quick" else 2)) as ex:
        results = list(ex.map(one, runs))
    for (cfg, label, expect), res in results:
        ctx.tlc_stats(res, f"{cfg}: {label}")
        if expect:
            if res.error:
                raise vlib.ToolError(f"TLC error in {cfg}: {res.error[:300]}")
            if res.violated == expect:
                ctx.set("model_reproduces_same_name_defect", True)
            else:
                ctx.set("model_reproduces_same_name_defect", False)
                ctx.notes.append(f"{cfg}: expected TLC to find the same-name counterexample to {expect}, got {res.violated}")
                raise vlib.ToolError(f"{cfg}: the modelled algorithm no longer shows the same-name order dependence (spec drift)")
        else:
            tlc_must_pass(res, cfg)
            if res.distinct < 300:
                raise vlib.ToolError(f"{cfg}: only {res.distinct} states")
            if t == "thorough" and res.coverage:
                for act in ("Fill",):
                    if res.coverage.get(act, 1) == 0:
                        raise vlib.ToolError(f"{cfg}: action {act} never taken")


# ------------------------------------------------------------------ cases -> groups of real calls
def to_spec(files, rs, ws):
    return [{"name": f["name"], "dir": f["dir"], "rgs": [{"rows": g["rows"] * rs, "w": g["bytes"] * ws} for g in f["rgs"]]}
            for f in files]


def moved(files, k=10):
    return [dict(f, dir=f["dir"] + k) for f in files]


def build_groups(cases, rng, nodes, start_gid=0):
    """Each TLC case (base inventory + its single-attribute mutants) becomes one main group and,
    when it has two files, one group in which the two files share a name."""
    groups = []
    gid = start_gid
    for c in cases:
        rs = rng.choice([1, 1, 3, 17, 50])
        ws = rng.choice([1, 8, 40])
        base = c["files"]
        calls = [{"tag": "base", "kind": "same", "files": to_spec(base, rs, ws)}]
        if len(base) >= 2:
            calls.append({"tag": "perm", "kind": "same", "files": to_spec(moved(list(reversed(base)), 20), rs, ws)})
        if len(base) >= 3:
            calls.append({"tag": "rot", "kind": "same", "files": to_spec(base[1:] + base[:1], rs, ws)})
        calls.append({"tag": "moved", "kind": "same", "files": to_spec(moved(base), rs, ws)})
        if len(base) >= 2:
            # directory order opposite to name order (a sort by path instead of by name shows here)
            calls.append({"tag": "crossed", "kind": "same", "files": to_spec([dict(f, dir=50 - f["dir"]) for f in base], rs, ws)})
        for m in sorted(c["mutants"], key=lambda m: json.dumps(m, sort_keys=True)):
            calls.append({"tag": m["kind"], "kind": m["kind"], "files": to_spec(m["files"], rs, ws)})
        gid += 1
        groups.append({"gid": gid, "nodes": nodes, "calls": calls, "family": "tlc"})
        vis = [i for i, f in enumerate(base) if any(g["rows"] > 0 for g in f["rgs"])]
        if len(vis) >= 2:
            # two files with rows get the same name (different directories); prefer a pair whose footers differ
            pairs = [(a, b) for a in vis for b in vis if a < b]
            a, b = next(((a, b) for a, b in pairs if base[a]["rgs"] != base[b]["rgs"]), pairs[0])
            dup = copy.deepcopy(base)
            dup[b]["name"] = dup[a]["name"]
            dcalls = [{"tag": "dupA", "kind": "dup", "files": to_spec(dup, rs, ws)},
                      {"tag": "dupB", "kind": "dup", "files": to_spec(list(reversed(dup)), rs, ws)},
                      {"tag": "base", "kind": "same", "files": to_spec(base, rs, ws)}]
            gid += 1
            groups.append({"gid": gid, "nodes": nodes[:4], "calls": dcalls, "family": "dup"})
    return groups


def big_groups(tier, start_gid):
    """Real-constant regimes beyond 'small table': MIN clamp (>= 4 MiB x nodes), ideal (> 128 MiB x nodes)."""
    g = []
    minfiles = [{"name": 1, "dir": 1, "rgs": [{"rows": 30000, "w": 100}, {"rows": 0, "w": 0}, {"rows": 7001, "w": 300}]},
                {"name": 2, "dir": 1, "rgs": [{"rows": 20000, "w": 120}]}]
    g.append({"gid": start_gid + 1, "nodes": [1, 2, 3, 64], "family": "big-min",
              "calls": [{"tag": "base", "kind": "same", "files": minfiles},
                        {"tag": "perm", "kind": "same", "files": moved(list(reversed(minfiles)))},
                        {"tag": "rowplus", "kind": "rowplus", "files": [dict(minfiles[0], rgs=[{"rows": 30001, "w": 100}] + minfiles[0]["rgs"][1:]), minfiles[1]]}]})
    # same byte size, different row count (4 x 8-byte values vs 5 x 4-byte values): only num_rows tells them apart
    g.append({"gid": start_gid + 3, "nodes": [1, 2, 3], "family": "equal-bytes",
              "calls": [{"tag": "base", "kind": "same", "files": [{"name": 1, "dir": 1, "rgs": [{"rows": 4, "w": 8}]}]},
                        {"tag": "rowplus", "kind": "rowplus", "files": [{"name": 1, "dir": 1, "rgs": [{"rows": 5, "w": 4}]}]},
                        {"tag": "base10", "kind": "other", "files": [{"name": 1, "dir": 2, "rgs": [{"rows": 40, "w": 8}]}]},
                        {"tag": "rowplus10", "kind": "other", "files": [{"name": 1, "dir": 2, "rgs": [{"rows": 50, "w": 4}]}]}]})
    if tier == "thorough":
        idf = [{"name": 1, "dir": 1, "rgs": [{"rows": 40000, "w": 800}] * 4 + [{"rows": 12345, "w": 800}]},
               {"name": 2, "dir": 1, "rgs": [{"rows": 40000, "w": 100}]}]
        g.append({"gid": start_gid + 2, "nodes": [1, 2, 8], "family": "big-ideal",
                  "calls": [{"tag": "base", "kind": "same", "files": idf},
                            {"tag": "perm", "kind": "same", "files": moved(list(reversed(idf)))}]})
    return g


def run_real(ctx, groups, tag):
    inp = os.path.join(ctx.work, f"{tag}.in.ndjson")
    outp = os.path.join(ctx.work, f"{tag}.out.ndjson")
    files = os.path.join(ctx.work, f"{tag}.files")
    shutil.rmtree(files, ignore_errors=True)
    write_ndjson(inp, [{"gid": g["gid"], "nodes": g["nodes"], "calls": [{"tag": c["tag"], "files": c["files"]} for c in g["calls"]]} for g in groups])
    try:
        qev(["splits-enum", inp, outp, files], timeout=3000)
    finally:
        shutil.rmtree(files, ignore_errors=True)
    outs = read_ndjson(outp)
    if len(outs) != len(groups):
        raise vlib.ToolError("splits-enum returned a different number of groups")
    return outs


def to_trace(group, out):
    """Harness output -> the record SplitsTrace.tla reads (digests -> dense ranks inside the group)."""
    dg = {}
    calls, runs = [], []
    for ci, c in enumerate(out["calls"]):
        calls.append({"files": c["files"], "tag": c["tag"]})
        for r in c["runs"]:
            if r["ok"] == 1:
                d = dg.setdefault(r["digest"], len(dg) + 1)
                runs.append({"ci": ci + 1, "nodes": r["nodes"], "ok": 1, "again": r["again_same"], "splits": r["splits"],
                             "total_bytes": r["total_bytes"], "total_rows": r["total_rows"], "target": r["target"], "dg": d})
            else:
                runs.append({"ci": ci + 1, "nodes": r["nodes"], "ok": 0, "again": 0, "splits": [], "total_bytes": 0,
                             "total_rows": 0, "target": 0, "dg": 0, "err": r.get("err", "")[:200]})
    return {"gid": out["gid"], "calls": calls, "runs": runs}


def has_dup_names(trec):
    return any(len({f["name"] for f in c["files"]}) < len(c["files"]) for c in trec["calls"])


def classify(ctx, trecs, name, dev, lenient=False):
    """Run SplitsTrace over the groups; returns the line numbers (1-based) of the groups TLC does not accept.
    strict: the trace must be a behaviour of the spec (a rejected group is dropped and validation resumes after it);
    lenient (CLASSIFY=1): rejected groups are reported by the spec and skipped, one TLC launch."""
    path = os.path.join(ctx.work, f"{name}.ndjson")
    bad = []
    rest, base = list(trecs), 0
    for _ in range(len(trecs) + 1):
        if not rest:
            break
        write_ndjson(path, rest)
        ok, rej, res = validate_trace("SplitsTrace", "SplitsTrace.cfg", path, timeout=3000, heap="6g",
                                      env={"DEV_SAME_NAME": "1" if dev else "0", "FIDELITY": "0" if dev else "1",
                                           "CLASSIFY": "1" if lenient else "0"},
                                      tag=f"C11-{name}")
        ctx.tlc_stats(res, f"SplitsTrace over {len(rest)} groups (dev={int(dev)}, classify={int(lenient)})")
        for k, r in res.prints:
            if k == "DRIFT":
                ctx.add("fidelity_drift_groups")
                if len(ctx.notes) < 5:
                    ctx.notes.append(f"spec drift (fidelity only): modelled cutting arithmetic differs from the real result in group {r['gid']} runs {r['runs']}")
        if lenient:
            acc = [r for k, r in res.prints if k == "ACCEPT"]
            if not ok or not acc or acc[0]["n"] != len(rest):
                raise vlib.ToolError(f"SplitsTrace (classify) did not consume the whole trace {name}")
            return sorted(r["line"] for k, r in res.prints if k == "BAD")
        if ok:
            break
        i = rej["line"] - 1
        bad.append(base + i + 1)
        base += i + 1
        rest = rest[i + 1:]
        if len(bad) > 8:
            # many rejections: finish in one launch
            more = classify(ctx, rest, name, dev, lenient=True)
            bad.extend(base + x for x in more)
            break
    return bad


def judge(ctx, groups, outs, name):
    trecs = [to_trace(g, o) for g, o in zip(groups, outs)]
    # groups in which two files share a name are expected to be rejected by the ideal spec on the unchanged
    # tree; they get their own trace so that the main trace is validated strictly, as one behaviour
    main = [i for i, t in enumerate(trecs) if not has_dup_names(t)]
    dups = [i for i, t in enumerate(trecs) if has_dup_names(t)]
    n_ok = 0
    for idxs, nm, lenient in ((main, name + "-main", False), (dups, name + "-dup", True)):
        if not idxs:
            continue
        recs = [trecs[i] for i in idxs]
        bad_ideal = classify(ctx, recs, nm, dev=False, lenient=lenient)
        n_ok += len(recs) - len(bad_ideal)
        if not bad_ideal:
            continue
        sub = [recs[b - 1] for b in bad_ideal]
        bad_dev = set(classify(ctx, sub, nm + "-dev", dev=True, lenient=True))
        for k, b in enumerate(bad_ideal):
            gi = idxs[b - 1]
            if (k + 1) not in bad_dev and has_dup_names(sub[k]) and ctx.is_known(FINDING):
                ctx.known(FINDING, {"gid": groups[gi]["gid"], "files_as_listed": trecs[gi]["calls"][0]["files"],
                                    "listing_A_vs_B": [[r["ci"], r["nodes"], "digest#%d" % r["dg"], [[s["n"], s["bytes"]] for s in r["splits"]]]
                                                       for r in trecs[gi]["runs"] if r["ci"] <= 2][:4]})
                ctx.add("groups_explained_by_known_finding")
            else:
                ctx.violation({"group": groups[gi], "observed": trecs[gi]}, explain(trecs[gi]))
    ctx.add("traces_validated_against_impl", n_ok)
    return trecs


def explain(t):
    """Human-readable reason (Python re-derivation, for the replay file only; TLC is the judge)."""
    why = []
    for r in t["runs"]:
        files = t["calls"][r["ci"] - 1]["files"]
        if r["ok"] != 1:
            why.append(f"call {r['ci']} nodes={r['nodes']}: error {r.get('err')}")
            continue
        for fi, f in enumerate(files):
            for j, g in enumerate(f["rgs"]):
                ss = sorted((s["off"], s["n"], s["bytes"]) for s in r["splits"] if s["fi"] == fi + 1 and s["rg"] == j)
                if g["rows"] <= 0:
                    if ss:
                        why.append(f"call {r['ci']} nodes={r['nodes']}: split on empty row group {f['name']}[{j}]")
                    continue
                pos = 0
                for off, n, b in ss:
                    if off != pos or n < 1:
                        why.append(f"call {r['ci']} nodes={r['nodes']}: {f['name']}[{j}] ranges {ss} do not tile 0..{g['rows']}")
                        break
                    pos += n
                else:
                    if pos != g["rows"]:
                        why.append(f"call {r['ci']} nodes={r['nodes']}: {f['name']}[{j}] covers {pos} of {g['rows']} rows")
                if sum(b for _, _, b in ss) != g["bytes"]:
                    why.append(f"call {r['ci']} nodes={r['nodes']}: {f['name']}[{j}] bytes {sum(b for _, _, b in ss)} != {g['bytes']}")
    if not why:
        why.append("listing-order / directory dependence or digest law broken (tuples or digests differ between runs over the same content, "
                   "or agree between runs over different content)")
    return "; ".join(why[:4])


# ------------------------------------------------------------------ run
def content_key(files):
    vis = []
    for f in files:
        v = tuple((j, g["rows"], g["bytes"]) for j, g in enumerate(f["rgs"]) if g["rows"] > 0)
        if v:
            vis.append((f["name"], v))
    return tuple(sorted(vis))


def stats(ctx, groups, trecs):
    nontriv = set()
    kinds_changed = {}
    feats = {"multi_piece_rowgroup": 0, "zero_row_rowgroup": 0, "uneven_rows_cut": 0, "byte_remainder_absorbed": 0}
    regimes = {}
    for g, t in zip(groups, trecs):
        base_key = content_key(t["calls"][0]["files"])
        for ci, c in enumerate(g["calls"]):
            if c["kind"] in MUT_KINDS and content_key(t["calls"][ci]["files"]) != base_key:
                kinds_changed[c["kind"]] = kinds_changed.get(c["kind"], 0) + 1
        for r in t["runs"]:
            ctx.add("evaluations")
            files = t["calls"][r["ci"] - 1]["files"]
            if r["ok"] != 1:
                continue
            if any(g2["rows"] == 0 for f in files for g2 in f["rgs"]):
                feats["zero_row_rowgroup"] += 1
            per = {}
            for s in r["splits"]:
                per.setdefault((s["fi"], s["rg"]), []).append(s)
            if any(len(v) > 1 for v in per.values()):
                feats["multi_piece_rowgroup"] += 1
                if any(len({s["n"] for s in v}) > 1 for v in per.values()):
                    feats["uneven_rows_cut"] += 1
                if any(len(v) > 1 and len({s["bytes"] for s in v if s["n"] == v[0]["n"]}) > 1 for v in per.values()):
                    feats["byte_remainder_absorbed"] += 1
            tb, n = r["total_bytes"], max(r["nodes"], 1)
            floor = max(min(4194304, -(-tb // n)), 1)
            ideal = tb // (32 * n)
            reg = "maxclamp" if ideal > max(67108864, floor) else "ideal" if ideal > floor else "minclamp" if floor == 4194304 else "small"
            regimes[reg] = regimes.get(reg, 0) + 1
            if len(r["splits"]) >= 2:
                nontriv.add(vlib.chash([files, r["nodes"]]))
    ctx.set("distinct_nontrivial", len(nontriv))
    ctx.set("real_features", feats)
    ctx.set("real_target_regimes", regimes)
    ctx.set("mutant_kinds_that_changed_real_footers", kinds_changed)
    return feats, kinds_changed, regimes


def run(ctx):
    rng = random.Random(ctx.seed)
    quick = ctx.tier == "quick"
    with cf.ThreadPoolExecutor(max_workers=2) as ex:
        fut = ex.submit(model_runs, ctx)
        emit = run_tlc("Splits", f"Splits_emit_{ctx.tier}.cfg", workers=2, timeout=1800, heap="4g", tag="C11-emit")
        tlc_must_pass(emit, "Splits emit")
        ctx.tlc_stats(emit, "inventories + single-attribute mutants emitted for materialisation as real Parquet files")
        cases = emit.cases
        if len(cases) < 400:
            raise vlib.ToolError(f"Splits emitted only {len(cases)} cases")
        ctx.set("tlc_inventories_emitted", len(cases))
        cases.sort(key=lambda c: json.dumps(c["files"], sort_keys=True))
        if quick:
            # all shapes with <= 2 row groups would be cheap but dull; take a seeded sample across the space
            pick = rng.sample(cases, 60)
        else:
            pick = rng.sample(cases, min(len(cases), 600))
        nodes = [1, 2, 3, 8, 64] if quick else [1, 2, 3, 4, 5, 8, 16, 64]
        groups = build_groups(pick, rng, nodes)
        groups += big_groups(ctx.tier, 1000000)
        outs = run_real(ctx, groups, "real")
        trecs = judge(ctx, groups, outs, "trace")
        fut.result()
    feats, kinds, regimes = stats(ctx, groups, trecs)
    for g, t in list(zip(groups, trecs))[:2]:
        ctx.sample({"calls": [{"tag": c["tag"], "files": tc["files"]} for c, tc in zip(g["calls"], t["calls"])][:3], "runs": t["runs"][:3]})
    dupg = [t for t in trecs if has_dup_names(t)]
    if dupg:
        ctx.sample({"same_name_group": {"calls": dupg[0]["calls"][:2], "runs": [r for r in dupg[0]["runs"] if r["ci"] <= 2][:4]}})
    # vacuity
    for k, v in feats.items():
        if v == 0:
            vacuity(ctx, f"no real run exercised {k}")
    for k in MUT_KINDS:
        if kinds.get(k, 0) == 0:
            vacuity(ctx, f"mutation kind {k} never changed the real footers")
    need = {"small", "minclamp"} | (set() if quick else {"ideal"})
    if not need <= set(regimes):
        vacuity(ctx, f"target regimes reached with real constants: {sorted(regimes)}; needed {sorted(need)}")
    if not dupg:
        vacuity(ctx, "no same-name group was generated")
    eq = [t for g, t in zip(groups, trecs) if g["family"] == "equal-bytes"]
    if not eq or eq[0]["calls"][0]["files"][0]["rgs"][0]["bytes"] != eq[0]["calls"][1]["files"][0]["rgs"][0]["bytes"]:
        vacuity(ctx, "the equal-bytes pair (4 vs 5 rows) no longer has equal byte sizes: the num_rows-only sensitivity case is not exercised")
    ctx.set("groups", len(groups))
    ctx.set("exhaustive", True)
    ctx.set("rule", "TLC (Splits.tla) enumerates every inventory within the bounds and checks that the modelled algorithm meets the contract "
            "(tiling, totals, invariance under all listings/directories, digest determined by and determining the visible content); it also emits "
            "inventories with all their single-attribute mutants. A seeded sample of 60 (quick) / 600 (thorough) of them is materialised as real Parquet "
            "files (row counts x scale, value widths; zero-row row groups included), listed in base/reversed/rotated order and under other directories, "
            "and every variant is enumerated by the real enumerate_parquet at each node count; SplitsTrace.tla judges each group with the real constants "
            "against footers read back independently. evaluations = real enumerate_parquet calls judged; distinct_nontrivial = distinct "
            "(footer inventory in listing order, node count) whose result has >= 2 splits.")
    ctx.assumptions += ["Parquet writer/reader of the parquet crate used by the harness to materialise inventories and to read footers back",
                        "64-bit FNV collisions are not expected among the handful of digests compared inside one group",
                        "the 64 MiB MAX clamp is explored in the model only (needs > 2 GiB x nodes of data)",
                        "a file or row group without rows is not split-relevant: its presence may or may not change the digest"]


def replay(ctx, obj):
    g = obj["case"]["group"]
    outs = run_real(ctx, [g], "replay")
    trecs = judge(ctx, [g], outs, "replay")
    ctx.add("evaluations", len(trecs[0]["runs"]))
    ctx.set("distinct_nontrivial", 1)
    ctx.sample(trecs[0]["runs"][:2])


def selftest(ctx):
    """Corrupt recorded results of the real code; SplitsTrace must reject every corruption and accept the original."""
    rng = random.Random(7)
    files = [{"name": 1, "dir": 1, "rgs": [{"rows": 5, "bytes": 3}, {"rows": 0, "bytes": 0}, {"rows": 2, "bytes": 1}]},
             {"name": 2, "dir": 2, "rgs": [{"rows": 3, "bytes": 1}]}]
    case = {"files": files, "mutants": [{"kind": "rowplus", "files": [dict(files[0], rgs=[{"rows": 6, "bytes": 3}] + files[0]["rgs"][1:]), files[1]]}]}
    groups = [g for g in build_groups([case], rng, [1, 3, 64]) if g["family"] == "tlc"]
    outs = run_real(ctx, groups, "selftest")
    t0 = to_trace(groups[0], outs[0])
    if classify(ctx, [t0], "selftest-orig", dev=False):
        print("selftest: the unmodified record is rejected")
        return 1

    def runs_of(t, ci, nodes):
        return next(r for r in t["runs"] if r["ci"] == ci and r["nodes"] == nodes)
    muts = []
    t = copy.deepcopy(t0); r = runs_of(t, 1, 3); s = max(r["splits"], key=lambda s: s["n"]); s["n"] -= 1; r["total_rows"] -= 1
    muts.append(("a row dropped from a split (remainder lost)", t))
    t = copy.deepcopy(t0); r = runs_of(t, 1, 64); r["splits"][-1]["bytes"] -= 1; r["total_bytes"] -= 1
    muts.append(("last piece does not absorb the byte remainder", t))
    t = copy.deepcopy(t0); r = runs_of(t, 1, 3); r["splits"][1]["off"] += 1
    muts.append(("overlapping / gapped ranges", t))
    t = copy.deepcopy(t0); r = runs_of(t, 2, 3); r["splits"][0], r["splits"][-1] = r["splits"][-1], r["splits"][0]
    muts.append(("reversed listing yields a different split order", t))
    t = copy.deepcopy(t0); r = runs_of(t, 2, 3); r["dg"] = 99
    muts.append(("digest depends on listing order / directory", t))
    mi = next(i for i, c in enumerate(t0["calls"]) if c["tag"] == "rowplus") + 1
    t = copy.deepcopy(t0); runs_of(t, mi, 3)["dg"] = runs_of(t, 1, 3)["dg"]
    muts.append(("digest blind to a row count", t))
    t = copy.deepcopy(t0); r = runs_of(t, 1, 1); r["splits"].append(dict(r["splits"][0], rg=1, off=0, n=1, bytes=0))
    muts.append(("split on an empty row group", t))
    missed = 0
    for why, t in muts:
        bad = classify(ctx, [t], "selftest-mut", dev=False)
        print(f"selftest: {'rejected' if bad else 'ACCEPTED (binding lost)'}: {why}")
        missed += 0 if bad else 1
    return 1 if missed else 0
