"""C07 — Answers do not depend on parallelism, batching or scheduling (configuration matrix judged by SqlSem.tla)."""
import sqlprop, sqlcheck
LEVEL = "model_checking"


def run(ctx):
    sqlprop.run_sql_property(ctx, corpus=['cjoins', 'agg', 'big', 'noalias', 'limoff'], seeded=[], cfgs=sqlprop.PARALLEL, quick_n=40, thorough_n=1200,
        envs=[("t1", {"RAYON_NUM_THREADS": "1"}), ("t4", {"RAYON_NUM_THREADS": "4"}), ("t16", {"RAYON_NUM_THREADS": "16"})], cross=sqlprop.cross_success_consistency(),
        rule='Each corpus case is run with the input split into 1/2/3/7 batches, 1/2/8/16 partitions (multi-partition memory scans via a verification switch), Parquet row-group partitioning, under RAYON_NUM_THREADS 1/4/16 (separate processes); every outcome is judged by TLC against SqlSem.')

    import partcontract
    partcontract.run_partition_contract(ctx)
    import morsel                      # X03 "Morsel" sub-model (checks/morsel.py)
    morsel.run_sub(ctx)


def replay(ctx, obj):
    if obj.get("case", {}).get("kind") == "partition_contract":
        import partcontract
        return partcontract.replay_partition_contract(ctx, obj)
    if obj.get("case", {}).get("kind") == "morsel":
        import morsel
        return morsel.replay_sub(ctx, obj)
    sqlcheck.replay_sql(ctx, obj)

def selftest(ctx):
    import partcontract, morsel
    return partcontract.selftest_partition_contract(ctx) or morsel.selftest_sub(ctx) or sqlprop.selftest(ctx, [])
