"""C44 — VALUES lists produce their rows (SqlSem.tla as the oracle)."""
import sqlprop, sqlcheck
LEVEL = "model_checking"

def run(ctx):
    sqlprop.laws(ctx, f"SqlLaws_agg_{ctx.tier}.cfg") if "C44" == "C27" else None
    sqlprop.run_sql_property(ctx, corpus=['values', 'valuesbig'], seeded=[], quick_n=500,
        rule='VALUES lists of 1-4 rows x 1-3 columns of int/string/double/boolean/date literals and NULLs (NULL-first columns included), used bare, as a derived table with projection/WHERE/ORDER BY, joined to a table (inner/left) and in IN (VALUES ...); Answer(values) in SqlSem is the listed rows as a bag.')

def replay(ctx, obj):
    sqlcheck.replay_sql(ctx, obj)

def selftest(ctx):
    return sqlprop.selftest(ctx, [])
