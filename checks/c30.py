"""C30 — the reported result schema describes the returned rows (SchemaTrace.tla)."""
import json, os, random
import sqlcheck, sqlloop, sqlprop, vlib
import typing_sub                      # X04 "Typing" sub-model (checks/typing_sub.py)
LEVEL = "model_checking"
CFGS = [sqlprop.cfg("mem1"), sqlprop.cfg("mem3", batches=3), sqlprop.cfg("pq_2f_rg2", layout="parquet", files=2, rg=2)]
FAMS = ["general", "agg", "cjoins", "setop", "cte", "order", "subq", "values", "gsets", "unionjoin"]


def judge(ctx, cases, outs, name):
    byid = {c["id"]: c for c in cases}
    recs = []
    for o in outs:
        for i, (x, m) in enumerate(zip(o["outs"], o["meta"])):
            if x["k"] != "rows" or "schema" not in m:
                continue
            recs.append({"id": o["id"], "cfg": i, "report": m["schema"], "batches": m.get("batch_schemas", []),
                         "hasplan": 1 if "plan_schema" in m else 0, "plan": m.get("plan_schema", []), "arity": len(byid[o["id"]]["out_types"])})
    path = os.path.join(ctx.work, f"{name}.schema.ndjson")
    vlib.write_ndjson(path, recs)
    res = vlib.run_tlc("SchemaTrace", "SchemaTrace.cfg", workers=1, env={"TRACE": path}, deque=True, timeout=1800, tag=f"C30-{name}")
    if res.error or not any(k == "ACCEPT" for k, _ in res.prints):
        vlib.log(res.out[-3000:]); raise vlib.ToolError("SchemaTrace did not consume the trace")
    ctx.tlc_stats(res, f"SchemaTrace validation of {len(recs)} executed statements ({name})")
    ctx.add("traces_validated_against_impl", 1)
    return [(r["id"], r["cfg"]) for k, r in res.prints if k == "REJECT"], recs


def run(ctx):
    known = sqlcheck.load_known(ctx.pid)
    learned = {}
    nontriv = set()
    for fam in FAMS:
        cases = sqlcheck.load_corpus(fam, 1500 if ctx.tier == "thorough" else None)
        if ctx.tier != "thorough":
            random.Random(ctx.seed).shuffle(cases); cases = cases[:150]
        outs = sqlloop.run_cases(ctx, cases, CFGS, f"c30-{fam}")
        rej, recs = judge(ctx, cases, outs, fam)
        byid = {c["id"]: c for c in cases}
        for r in recs:
            ctx.add("evaluations")
            if r["batches"]:
                nontriv.add((sqlcheck.case_hash(byid[r["id"]])))
        for (cid, ci) in rej:
            c = byid[cid]; h = sqlcheck.case_hash(c); cfgname = CFGS[ci]["name"]
            listed = known.get(fam, {}).get(h, {}).get(cfgname)
            if listed is not None and ctx.is_known(f"C30/{listed}"):
                ctx.known(f"C30/{listed}", {"sql": c["sql"][:160], "cfg": cfgname, "hash": h}); continue
            if os.environ.get("VERIF_LEARN"):
                learned.setdefault(fam, {}).setdefault(h, {})[cfgname] = "schema-mismatch"; continue
            o = next(o for o in outs if o["id"] == cid)
            ctx.violation({"kind": "sql", "family": fam, "case": c, "cfg": CFGS[ci], "label": "schema-mismatch", "meta": o["meta"][ci]},
                          f"[{fam}/{cfgname}] reported schema {o['meta'][ci].get('schema')} vs batches {o['meta'][ci].get('batch_schemas')} plan {o['meta'][ci].get('plan_schema')} :: {c['sql'][:160]}")
        ctx.sample({"sql": cases[0]["sql"], "reported": outs[0]["meta"][0].get("schema")})
    if learned:
        ctx.cov["_learned"] = learned
    ctx.cov["_nontrivial_hashes"] = nontriv
    sqlcheck.finish_cov(ctx, "Every corpus statement that plans and executes (memory single/multi batch, Parquet) records the schema its result reports, "
                             "its physical plan's schema and every returned batch's schema; SchemaTrace.tla requires equal column count, names and types. "
                             "The Flight GetSchema half of the property is covered by C34.")
    typing_sub.run_sub(ctx)            # ADDS distinct_nontrivial / evaluations / tlc stats; own keys are typing_*
    ctx.set("rule", ctx.cov["rule"] + " + " + ctx.cov.get("typing_rule", ""))


def replay(ctx, obj):
    if obj["case"].get("kind") == typing_sub.NAME:
        return typing_sub.replay_sub(ctx, obj)
    c = obj["case"]["case"]; cfg = obj["case"]["cfg"]
    outs = sqlloop.run_cases(ctx, [c], [cfg], "replay")
    rej, _ = judge(ctx, [c], outs, "replay")
    ctx.add("evaluations"); ctx.set("distinct_nontrivial", 2); ctx.sample({"sql": c["sql"]})
    if rej:
        ctx.violation(obj["case"], "replayed: schema mismatch")


def selftest(ctx):
    cases = sqlcheck.load_corpus("cjoins", 30)
    outs = sqlloop.run_cases(ctx, cases, CFGS[:1], "selftest")
    r0, _ = judge(ctx, cases, outs, "st0")
    n = 0
    for o in outs:
        m = o["meta"][0]
        if m.get("schema"):
            m["schema"][0][1] = "Int32" if m["schema"][0][1] != "Int32" else "Int64"; n += 1
    r1, _ = judge(ctx, cases, outs, "st1")
    print(f"selftest: {n} reported types corrupted; rejects {len(r0)} -> {len(r1)}")
    return (0 if n and len(r1) >= n else 1) or typing_sub.selftest_sub(ctx)
