"""X04 "Typing" — sub-model of C30 (tie to C01): spec/Typing.tla (M) + spec/TypingTrace.tla (V) + harness/src/typing.rs.

    run_sub(ctx)        model + conformance, called from the parent check (checks/c30.py) or from checks/x04.py
    replay_sub(ctx, o)  re-runs the statement of a replay file (o["case"]["kind"] == "typing")
    selftest_sub(ctx)   0 iff every corruption of a record and every seeded mistake of the spec is rejected

(M) TLC checks the laws of the typing judgement (typing is a function; unification is a commutative, associative,
idempotent join; branch order never changes a type; every branch widens into the result type; coercion is strictly
monotone and value preserving; comparison compares mathematical values; a cast keeps the value or yields NULL) and
enumerates every expression tree of depth <= 2 (thorough: a depth-3 family too), every aggregate / GROUP BY key type
and every set operation over the type alphabet, one case per tree with the dialect's type and the type under each
named allowed alternative.
(V) every case becomes `SELECT rid, <e> AS e FROM t` (resp. its aggregate / GROUP BY / set-operation form) over two
8-row tables with one column per type (ts: small values, fractions .5, NULLs; tb: i32::MAX, i32::MIN, 2^31, 2^32+1,
-2^31-1, 2^31+0.5); `qev typing-run` records the logical / physical plan schema, QueryResult.schema, every
batch's schema and the values under one-batch, three-batch and Parquet layouts; TypingTrace.tla judges every ANSWERED
statement:
    contract (a), C30: reported schema == physical plan schema == every batch's schema (count, names, types; the
                       same rule as SchemaTrace.tla / checks/c30.py: type strings compared as printed, nullability
                       not recorded, a Null-typed column is a type like any other);
    contract (b), C01: every returned value is one the model allows.
Verdicts.  A contract (a) rejection is a VIOLATION of the parent property unless its innermost mis-typed node has the
shape of a listed finding C30/typing-*.  A contract (b) rejection is a C01 matter: under C01 / X04 it is a violation
unless it has the shape of a listed finding C01/typing-*; under any other parent (C30) it is recorded as a note.
An error, panic or hang is not judged here (C01 / C29).  WHICH type the engine chose versus the dialect is drift.
"""
import collections
import concurrent.futures as cf
import copy
import json
import os
import sys
import time
from fractions import Fraction

if __name__ == "__main__":
    sys.path.insert(0, os.path.join(os.path.dirname(os.path.dirname(os.path.abspath(__file__))), "lib"))
import vlib
from vlib import NULL

NAME = "typing"  # replay objects carry case["kind"] == "typing"; the FILE is typing_sub.py because checks/ is first on sys.path and a checks/typing.py would shadow the standard library module for every check
OFF = NULL + 2
BM = 1024                      # Typing.tla's B in TypingTrace.tla
B31, B62 = 1 << 31, 1 << 62
DATE_BASE = 19723              # 2024-01-01
STRS = ["", "a", "b", "c"]     # order-preserving codes 0..3
COLS = [("Int32", "c_i32"), ("Int64", "c_i64"), ("Float64", "c_f64"), ("Utf8", "c_str"), ("Date32", "c_date"), ("Boolean", "c_bool")]
COLNAME = dict(COLS)
N = None
# cells: ints / floats as (small part, multiple of 2^31); floats' small part in halves
TS = [  # i32      i64      f64(halves)  str   date  bool
    [(1, 0), (1, 0), (2, 0), "a", 0, True],
    [N, N, N, N, N, N],
    [(2, 0), (3, 0), (5, 0), "b", 1, False],
    [(-2, 0), (2, 0), (-3, 0), "a", 0, True],
    [(0, 0), (0, 0), (1, 0), "", 2, False],
    [(3, 0), (-3, 0), (6, 0), "c", 1, N],
    [N, (2, 0), (1, 0), "b", N, True],
    [(2, 0), N, N, N, 2, False],
]
TB = [
    [(1, 0), (1, 0), (2, 0), "a", 0, True],
    [N, N, N, N, N, N],
    [(-1, 1), (1, 2), (1, 0), "b", 1, False],        # i32::MAX, 2^32+1, 0.5
    [(-2, 0), (0, 1), (-3, 0), "a", 0, True],        # -2, 2^31, -1.5
    [(0, 0), (0, 0), (1, 1), "", 2, False],          # 0, 0, 2^31+0.5
    [(0, -1), (-1, -1), (4, 0), "c", 1, N],          # i32::MIN, -2^31-1, 2.0
    [(-1, 1), (-1, 1), (-2, 1), "b", N, True],       # i32::MAX in all three numeric columns
    [(0, -1), N, (0, -1), N, 2, False],              # i32::MIN as Int32 and Float64
]
TABLES = {"s": ("ts", TS), "b": ("tb", TB)}
CONFIGS = {"mem1": {"name": "mem1", "layout": "mem"}, "mem3": {"name": "mem3", "layout": "mem", "cuts": [3, 6]},
           "pq": {"name": "pq", "layout": "parquet", "rg": 3}}

F_PREFIX_A = "C30/typing-"
F_PREFIX_B = "C01/typing-"


# ------------------------------------------------------------------------------------- tables
def model_cell(ty, v):
    if v is None:
        return NULL
    if ty in ("Int32", "Int64"):
        return v[0] + v[1] * BM
    if ty == "Float64":
        return v[0] + v[1] * 2 * BM
    if ty == "Utf8":
        return STRS.index(v)
    if ty == "Date32":
        return v
    return 1 if v else 0


def concrete_cell(ty, v):
    if v is None:
        return None
    if ty in ("Int32", "Int64"):
        return v[0] + v[1] * B31
    if ty == "Float64":
        return v[0] / 2 + v[1] * B31           # exact in binary64
    if ty == "Date32":
        return DATE_BASE + v
    return v


def setup_json():
    tabs = []
    for key, (name, rows) in TABLES.items():
        tabs.append({"name": name, "cols": [["rid", "Int64"]] + [[cn, ty] for ty, cn in COLS],
                     "rows": [[i] + [concrete_cell(COLS[j][0], r[j]) for j in range(6)] for i, r in enumerate(rows)]})
    return tabs


def model_tables():
    return {key: [[model_cell(COLS[j][0], r[j]) for j in range(6)] for r in rows] for key, (name, rows) in TABLES.items()}


# ------------------------------------------------------------------------------------- SQL
ARITH = {"add": "+", "sub": "-", "mul": "*", "div": "/", "mod": "%"}
CMP = {"eq": "=", "ne": "<>", "lt": "<", "le": "<=", "gt": ">", "ge": ">="}
SQLTYPE = {"Int32": "INTEGER", "Int64": "BIGINT", "Float64": "DOUBLE", "Utf8": "VARCHAR", "Date32": "DATE", "Boolean": "BOOLEAN"}
AGGS = {"count": "COUNT", "sum": "SUM", "avg": "AVG", "min": "MIN", "max": "MAX"}
SETOPS = {"unionall": "UNION ALL", "union": "UNION", "intersect": "INTERSECT", "except": "EXCEPT", "intersectall": "INTERSECT ALL", "exceptall": "EXCEPT ALL"}


def lit_sql(ty, v):
    return {"Int64": "2147483648" if v else "2", "Float64": "1.5", "Utf8": "'a'", "Boolean": "TRUE", "Null": "NULL", "Date32": "DATE '2024-01-02'"}[ty]


def expr_sql(e):
    op, k = e["op"], e["kids"]
    if op == "col":
        return COLNAME[e["ty"]]
    if op == "lit":
        return lit_sql(e["ty"], e["v"])
    if op in ARITH:
        return f"({expr_sql(k[0])} {ARITH[op]} {expr_sql(k[1])})"
    if op in CMP:
        return f"({expr_sql(k[0])} {CMP[op]} {expr_sql(k[1])})"
    if op in ("and", "or"):
        return f"({expr_sql(k[0])} {op.upper()} {expr_sql(k[1])})"
    if op == "neg":
        return f"(- {expr_sql(k[0])})"
    if op == "not":
        return f"(NOT {expr_sql(k[0])})"
    if op == "isnull":
        return f"({expr_sql(k[0])} IS NULL)"
    if op == "isnotnull":
        return f"({expr_sql(k[0])} IS NOT NULL)"
    if op == "case":
        return f"CASE WHEN {expr_sql(k[0])} THEN {expr_sql(k[1])} ELSE {expr_sql(k[2])} END"
    if op == "case2":
        return f"CASE WHEN {expr_sql(k[0])} THEN {expr_sql(k[1])} END"
    if op == "coalesce":
        return f"COALESCE({expr_sql(k[0])}, {expr_sql(k[1])})"
    if op == "nullif":
        return f"NULLIF({expr_sql(k[0])}, {expr_sql(k[1])})"
    if op == "cast":
        return f"CAST({expr_sql(k[0])} AS {SQLTYPE[e['ty']]})"
    if op == "countstar":
        return "COUNT(*)"
    if op in AGGS:
        return f"{AGGS[op]}({expr_sql(k[0])})"
    raise vlib.ToolError(f"typing: cannot render {op}")


def kind_of(e):
    return "set" if e["op"] in SETOPS else "group" if e["op"] == "group" else "agg" if e["op"] in AGGS or e["op"] == "countstar" else "scalar"


def stmt_sql(e, tname):
    k = kind_of(e)
    if k == "scalar":
        return f"SELECT rid, {expr_sql(e)} AS e FROM {tname}"
    if k == "agg":
        return f"SELECT {expr_sql(e)} AS e FROM {tname}"
    if k == "group":
        kc = COLNAME[e["ty"]]
        return f"SELECT {kc} AS k, {expr_sql(e['kids'][0])} AS e FROM {tname} GROUP BY {kc}"
    return f" {SETOPS[e['op']]} ".join(f"SELECT {expr_sql(b)} AS e FROM {tname}" for b in e["kids"])


ARITY = {"scalar": 2, "agg": 1, "group": 2, "set": 1}


def tkey(e):
    return json.dumps(e, sort_keys=True, separators=(",", ":"))


def subtrees(e):
    """proper scalar sub-expressions that are statements of their own (used to locate the innermost mis-typed node)"""
    out = []
    for k in e["kids"]:
        out.append(k)
        out += subtrees(k)
    return out


# ------------------------------------------------------------------------------------- values: concrete -> model
def halves_code(v):
    """exact rational -> the model's number in units of 1/2 (base-B digits), or OFF"""
    h = v * 2
    if h.denominator != 1:
        return OFF
    h = h.numerator
    hc, hb = 2 * B62, 2 * B31
    c = (2 * h + hc) // (2 * hc)
    r = h - c * hc
    b = (2 * r + hb) // (2 * hb)
    a = r - b * hb
    if abs(a) > 900 or abs(b) > 400 or abs(c) > 400:
        return OFF
    return a + b * 2 * BM + c * 2 * BM * BM


def cell_code(x):
    if x is None:
        return NULL
    tag, v = x
    if tag == "i":
        return halves_code(Fraction(v))
    if tag == "f":
        f = float(v)
        if f != f or f in (float("inf"), float("-inf")):
            return OFF
        return halves_code(Fraction(f))
    if tag == "b":
        return 1 if v else 0
    if tag == "s":
        return STRS.index(v) if v in STRS else OFF
    if tag == "d":
        return v - DATE_BASE if abs(v - DATE_BASE) <= 400 else OFF
    return OFF


def type_kind(t):
    if t.startswith(("Int", "UInt", "Float", "Decimal")):
        return "num"
    return {"Boolean": "bool", "Utf8": "str", "LargeUtf8": "str", "Utf8View": "str", "Date32": "date", "Null": "null"}.get(t, "other")


def col_kind(types):
    ks = {type_kind(t) for t in types} - {"null"}
    return "null" if not ks else ks.pop() if len(ks) == 1 else "other"


def tlc(module, cfg, **kw):
    """vlib.run_tlc, re-run once when TLC itself failed (work/tlc metadirs are shared and occasionally removed under a running TLC)"""
    res = vlib.run_tlc(module, cfg, **kw)
    if res.error and not res.violated:
        vlib.log(f"[typing] TLC {cfg} failed ({str(res.error)[:160]}); retrying once")
        res = vlib.run_tlc(module, cfg, **kw)
    return res


# ------------------------------------------------------------------------------------- TLC: laws + cases
MUTANTS = [("unify_left", {"UnifyComm", "UnifyAssoc", "BranchOrder", "UnifyUpper", "BranchesWiden"}, "unification returns the LEFT numeric type (what bind_set_expr does for UNION)"),
           ("cmp_in_int", {"CmpIsMath"}, "an integer is compared with a Float64 in the integer type (the fraction is truncated before the comparison)"),
           ("wrap_narrow", {"CastKeepsOrNull", "CastTotalWhenFits"}, "a narrowing integer cast wraps modulo 2^32 instead of yielding NULL"),
           ("coerce_noscale", {"CoercePreserves", "CoerceMonotone", "CmpIsMath", "CastKeepsOrNull", "CastTotalWhenFits"}, "integer -> Float64 coercion reinterprets the representation instead of converting the value"),
           ("case_takes_then", {"Functional", "BranchOrder", "BranchesWiden"}, "CASE is typed by its first THEN branch (logical_expr.rs) although an ELSE of a wider type exists")]


def run_models(ctx, tier):
    jobs = [("laws", "Typing_laws.cfg"), ("cases", f"Typing_{tier}.cfg")]

    def one(j):
        return j, tlc("Typing", j[1], workers=3 if tier == "quick" else 6, timeout=3000, heap="6g", tag=f"{ctx.pid}-typing-{j[0]}", coverage=False)
    with cf.ThreadPoolExecutor(max_workers=2) as ex:
        results = list(ex.map(one, jobs))
    cases = None
    for (what, cfg), res in results:
        vlib.tlc_must_pass(res, cfg)
        if what == "laws":
            ctx.tlc_stats(res, "Typing.tla laws (B = 4): typing judgement functional; unification commutative / associative / idempotent / upper bound; branch order; "
                               "coercion strictly monotone and value preserving; comparison = comparison of mathematical values; casts keep the value or yield NULL")
            if res.distinct < 10000:
                raise vlib.ToolError(f"Typing_laws.cfg explored only {res.distinct} states")
        else:
            ctx.tlc_stats(res, f"Typing.tla case enumeration ({tier}): every tree obeys the tree laws; one case per tree")
            cases = res.cases
    if not cases:
        raise vlib.ToolError("Typing.tla emitted no cases")
    cases.sort(key=lambda c: tkey(c["e"]))          # TLC's workers print in a schedule-dependent order
    return cases


def run_mutants(ctx, label="typing"):
    def one(m):
        return m, tlc("Typing", f"Typing_mut_{m[0]}.cfg", workers=2, timeout=1800, heap="3g", tag=f"{ctx.pid}-typing-mut-{m[0]}")
    bad = []
    with cf.ThreadPoolExecutor(max_workers=3) as ex:
        for (name, invs, why), res in ex.map(one, MUTANTS):
            ctx.tlc_stats(res, f"Typing_mut_{name}.cfg: expected refutation ({'/'.join(sorted(invs))}) - {why}")
            ok = res.violated in invs
            print(f"{label}: seeded spec mistake {name!r} {'refuted by law ' + str(res.violated) if ok else 'NOT REFUTED (violated=' + str(res.violated) + ')'}: {why}")
            if not ok:
                bad.append(name)
    return bad


# ------------------------------------------------------------------------------------- harness
def plan_cases(ctx, cases, tier):
    """statements to execute: every emitted tree plus (closure) every proper subtree, on both tables"""
    trees = collections.OrderedDict()
    for c in cases:
        trees.setdefault(tkey(c["e"]), {"e": c["e"], "model": c, "derived": False})
    for c in list(trees.values()):
        for s in subtrees(c["e"]):
            trees.setdefault(tkey(s), {"e": s, "model": None, "derived": True})
    items = []
    for i, (k, t) in enumerate(trees.items()):
        t["n"] = i
        t["key"] = k
        t["kind"] = kind_of(t["e"])
        t["depth"] = depth(t["e"])
        for tab, (tname, _) in TABLES.items():
            items.append({"id": f"{i}.{tab}", "sql": stmt_sql(t["e"], tname), "group": tab + ("3" if t["kind"] == "scalar" and t["depth"] >= 3 else "")})
    return list(trees.values()), items


def depth(e):
    return 1 + max([depth(k) for k in e["kids"]], default=0)


def layouts_for(tier):
    """layout group -> layouts; group = table, or table + "3" for the depth-3 family (types do not depend on the layout: one layout there)"""
    if tier == "quick":
        return {"s": [CONFIGS["mem1"], CONFIGS["mem3"]], "b": [CONFIGS["mem1"]], "s3": [CONFIGS["mem1"]], "b3": [CONFIGS["mem1"]]}
    return {"s": [CONFIGS["mem1"], CONFIGS["mem3"], CONFIGS["pq"]], "b": [CONFIGS["mem1"], CONFIGS["mem3"], CONFIGS["pq"]], "s3": [CONFIGS["mem3"]], "b3": [CONFIGS["mem1"]]}


def run_harness(ctx, items, layouts, tag, procs):
    """items: [{"id": "<n>.<tab>", "sql"}]; every item is executed under the layouts of its table"""
    jobs = []
    load = {g: len(cfgs) * sum(1 for it in items if it["group"] == g) for g, cfgs in layouts.items()}
    for tab, cfgs in layouts.items():
        mine = [{"id": it["id"], "sql": it["sql"]} for it in items if it["group"] == tab]
        if not mine:
            continue
        setup = os.path.join(ctx.work, f"{tag}.{tab}.setup.json")
        json.dump({"tables": setup_json(), "configs": cfgs}, open(setup, "w"))
        np = max(1, round(procs * load[tab] / max(1, sum(load.values()))))
        for k, chunk in enumerate(c for c in (mine[i::np] for i in range(np)) if c):
            jobs.append((setup, f"{tag}.{tab}.{k}", chunk))

    def one(job):
        setup, name, chunk = job
        inp = os.path.join(ctx.work, f"{name}.in.ndjson")
        outp = os.path.join(ctx.work, f"{name}.out.ndjson")
        vlib.write_ndjson(inp, chunk)
        p = vlib.qev(["typing-run", setup, inp, outp, ctx.work], timeout=3000, check=False)
        if p.returncode != 0:
            vlib.log(p.stderr[-3000:])
            raise vlib.ToolError(f"typing-run exited {p.returncode}")
        recs = vlib.read_ndjson(outp)
        if len(recs) != len(chunk):
            raise vlib.ToolError("typing-run returned a different number of records")
        return recs
    with cf.ThreadPoolExecutor(max_workers=max(1, min(procs + 2, len(jobs)))) as ex:
        outs = list(ex.map(one, jobs))
    return {r["id"]: r for recs in outs for r in recs}


def ecol(schema):
    """type of the column named e (last column) of a recorded schema"""
    return schema[-1][1] if schema else None


def trace_record(tree, tab, run):
    """the TypingTrace line of one answered run"""
    res = run["result"]
    kind = tree["kind"]
    bt = [b["schema"] for b in res["batches"]]
    etypes = [ecol(s) for s in bt] or [ecol(res["schema"])]
    rec = {"id": tree["n"], "cfg": run["cfg"], "tab": tab, "kind": kind, "e": tree["e"], "report": res["schema"],
           "hasplan": 1 if run["physical"]["k"] == "ok" else 0, "plan": run["physical"].get("schema", []), "batches": bt, "arity": ARITY[kind],
           "okind": col_kind(etypes), "kkind": "null", "rows": [[cell_code(x) for x in row] for row in res["values"]]}
    if kind == "scalar":        # the row id is an index, not a value
        rec["rows"] = [[(row[0][1] if row and row[0] and row[0][0] == "i" else -1)] + [cell_code(x) for x in row[1:]] for row in res["values"]]
    if kind == "group":
        rec["kkind"] = col_kind([s[0][1] for s in bt] or [res["schema"][0][1]])
    if any(len(r) != ARITY[kind] for r in rec["rows"]):
        rec["rows"] = [(r + [OFF, OFF])[:ARITY[kind]] for r in rec["rows"]]      # the arity clause of contract (a) rejects the record
    return rec


def judge(ctx, recs, name, nthreads):
    """TLC (TypingTrace.tla) judges the records; returns {(id, cfg, tab): {"schema": rej, "value": rej}}"""
    if not recs:
        return {}
    tabs = os.path.join(ctx.work, f"{name}.tables.ndjson")
    vlib.write_ndjson(tabs, [model_tables()])
    per = max(1, -(-len(recs) // nthreads))
    parts = [recs[i:i + per] for i in range(0, len(recs), per)]

    def one(k):
        path = os.path.join(ctx.work, f"{name}.{k}.trace.ndjson")
        vlib.write_ndjson(path, parts[k])
        res = vlib.run_tlc("TypingTrace", "TypingTrace.cfg", workers=1, env={"TRACE": path, "TYPING_TABLES": tabs}, deque=True, timeout=3000,
                           heap="6g", tag=f"{ctx.pid}-typing-{name}{k}")
        if res.error or not any(t == "ACCEPT" for t, _ in res.prints):
            vlib.log(f"[typing] TypingTrace part {k} failed ({str(res.error)[:160]}); retrying once")
            res = vlib.run_tlc("TypingTrace", "TypingTrace.cfg", workers=1, env={"TRACE": path, "TYPING_TABLES": tabs}, deque=True, timeout=3000,
                               heap="6g", tag=f"{ctx.pid}-typing-{name}{k}r")
        if res.error or not any(t == "ACCEPT" for t, _ in res.prints):
            vlib.log(res.out[-3000:])
            raise vlib.ToolError("TypingTrace did not consume the trace")
        return res
    with cf.ThreadPoolExecutor(max_workers=len(parts)) as ex:
        results = list(ex.map(one, range(len(parts))))
    out = {}
    for k, res in enumerate(results):
        ctx.tlc_stats(res, f"TypingTrace judgement of {len(parts[k])} answered statements ({name}, part {k})")
        for t, r in res.prints:
            if t == "REJECT":
                out.setdefault((r["id"], r["cfg"], r["tab"]), {})[r["why"]] = r
    ctx.add("traces_validated_against_impl", len(parts))
    ctx.add("trace_events_validated", len(recs))
    return out


# ------------------------------------------------------------------------------------- classification
def node_types(tree_by_key, runs, e, tab, cfg):
    """(reported type, set of batch types) of the statement that selects exactly e; None if it was not answered"""
    t = tree_by_key.get(tkey(e))
    if t is None:
        return None
    run = runs.get((t["n"], tab, cfg))
    if run is None or run["result"]["k"] != "ok":
        return None
    res = run["result"]
    return ecol(res["schema"]), sorted({ecol(b["schema"]) for b in res["batches"]})


def mistyped(nt):
    return nt is not None and nt[1] and nt[1] != [nt[0]]


def blame(tree_by_key, runs, e, tab, cfg):
    """innermost sub-expression of e whose own statement reports a type its batches do not have"""
    for k in e["kids"]:
        if kind_of(k) in ("scalar", "agg") and mistyped(node_types(tree_by_key, runs, k, tab, cfg)):
            return blame(tree_by_key, runs, k, tab, cfg)
    return e


def static_type(tree_by_key, runs, e, tab, cfg):
    nt = node_types(tree_by_key, runs, e, tab, cfg)
    return nt[0] if nt else "?"


def dyn_types(tree_by_key, runs, e, tab, cfg):
    nt = node_types(tree_by_key, runs, e, tab, cfg)
    return nt[1] if nt and nt[1] else (["?"] if nt is None else [nt[0]])


def shape_of(tree_by_key, runs, tree, tab, cfg):
    """what a contract (a) rejection looks like at its innermost mis-typed node"""
    run = runs[(tree["n"], tab, cfg)]
    res = run["result"]
    names_ok = all([c[0] for c in b["schema"]] == [c[0] for c in res["schema"]] for b in res["batches"]) and \
        (run["physical"]["k"] != "ok" or [c[0] for c in run["physical"]["schema"]] == [c[0] for c in res["schema"]])
    arity_ok = len(res["schema"]) == ARITY[tree["kind"]] and all(len(b["schema"]) == len(res["schema"]) for b in res["batches"])
    plan_ok = run["physical"]["k"] != "ok" or run["physical"]["schema"] == res["schema"]
    other_cols_ok = all(b["schema"][:-1] == res["schema"][:-1] for b in res["batches"])
    n = blame(tree_by_key, runs, tree["e"], tab, cfg)
    sh = {"names_ok": names_ok, "arity_ok": arity_ok, "plan_ok": plan_ok, "other_cols_ok": other_cols_ok, "op": n["op"], "cast_to": n["ty"] if n["op"] == "cast" else "",
          "kids_static": [static_type(tree_by_key, runs, k, tab, cfg) for k in n["kids"]],
          "kids_dyn": [dyn_types(tree_by_key, runs, k, tab, cfg) for k in n["kids"]],
          "static": static_type(tree_by_key, runs, n, tab, cfg), "dyn": dyn_types(tree_by_key, runs, n, tab, cfg), "node": n, "at_root": n is tree["e"]}
    return sh


def uni(ts):
    return ts[0] if len(ts) == 1 else None


def classify_schema(sh):
    """-> slug of the listed C30/typing-* finding this shape belongs to, or None (= violation)"""
    if not (sh["names_ok"] and sh["arity_ok"] and sh["plan_ok"] and sh["other_cols_ok"]):
        return None
    op, st, dy = sh["op"], sh["static"], sh["dyn"]
    kd = [uni(x) for x in sh["kids_dyn"]]
    if op in ARITH and len(kd) == 2 and None not in kd:
        a, b = kd
        # logical_expr.rs coerce_numeric_types: (Int32, _) -> Int64 even for Int32 op Int32; filter.rs: equal types are not coerced
        if a == b == "Int32" and st == "Int64" and dy == ["Int32"]:
            return "int32-arithmetic-reported-int64"
        # Date32 arithmetic: the static fall-through says Float64 (Date32 op Date32) / the numeric side's rule; arrow's kernels return Duration / Date32 / Interval
        if "Date32" in (a, b):
            return "date-arithmetic"
        # arithmetic on two operands of one non-numeric type (Utf8, Boolean, Null): static fall-through `_ => Float64`
        return None
    if op == "and" and len(kd) == 2 and sh["node"] is not None:
        # the optimizer rewrites `TRUE AND x` / `x AND TRUE` to x without looking at x's type: a non-Boolean x comes back under a Boolean column
        for i in (0, 1):
            lit, other = sh["node"]["kids"][i], kd[1 - i]
            if lit["op"] == "lit" and lit["ty"] == "Boolean" and other not in (None, "Boolean", "?") and st == "Boolean" and dy == [other]:
                return "and-true-non-boolean-operand"
        return None
    if op in ("case",) and len(kd) == 3:
        # filter.rs evaluate_case: branches of different types are cast to Float64 if either is Float64, else to the THEN type;
        # logical_expr.rs: the type of the first THEN
        t, el = kd[1], kd[2]
        if t is not None and el is not None and t != el and "Float64" in (t, el) and t != "Float64" and st == sh["kids_static"][1] and dy == ["Float64"]:
            return "case-else-float64"
        return None
    if op in SETOPS:
        # UnionExec forwards each branch's batches untouched when their types differ from the first branch's schema
        if op in ("unionall",) and st == sh["kids_static"][0] and set(dy) <= {uni(x) for x in sh["kids_dyn"]} | {st}:
            return "union-all-branch-types"
        return None
    return None


def value_blame(tree_by_key, rej, e, tab, cfg):
    """innermost sub-expression of e whose own statement already returns a value the model does not allow"""
    for k in e["kids"]:
        t = tree_by_key.get(tkey(k))
        if t is not None and "value" in rej.get((t["n"], cfg, tab), {}):
            return value_blame(tree_by_key, rej, k, tab, cfg)
    return e


def leaf_type(e):
    return e["ty"] if e["op"] in ("col", "lit") else None


def value_shape(tree_by_key, runs, rej, tree, tab, cfg, r):
    n = value_blame(tree_by_key, rej, tree["e"], tab, cfg)
    core = n["kids"][0] if n["op"] == "group" else n          # GROUP BY wrapper: the aggregate is what is typed
    kids = core["kids"]
    return {"op": core["op"], "grouped": n["op"] == "group", "key_type": n["ty"] if n["op"] == "group" else "", "node": n,
            "kids_static": [static_type(tree_by_key, runs, k, tab, cfg) for k in kids],
            "kids_dyn": [dyn_types(tree_by_key, runs, k, tab, cfg) for k in kids],
            "kids_leaf": [leaf_type(k) for k in kids],
            "kids_mistyped": [bool(mistyped(node_types(tree_by_key, runs, k, tab, cfg))) for k in kids],
            "static": static_type(tree_by_key, runs, n, tab, cfg), "dyn": dyn_types(tree_by_key, runs, n, tab, cfg),
            "cast_to": core["ty"] if core["op"] == "cast" else "", "got": r.get("got"), "want": r.get("want"), "at": r.get("at"), "at_root": n is tree["e"]}


def classify_value(sh):
    """-> slug of the C01/typing-* class of a contract (b) rejection (read at its innermost deviating node), or None"""
    op = sh["op"]
    kd = [uni(x) for x in sh["kids_dyn"]]
    if op == "case" and len(kd) == 3 and kd[1] and kd[2] and "?" not in kd and kd[1] != kd[2] and "Float64" not in (kd[1], kd[2]) and "Null" not in (kd[1], kd[2]):
        # filter.rs evaluate_case casts the ELSE branch to the THEN branch's type (arrow's safe cast: what does not fit becomes NULL)
        return "case-else-cast-to-then-type"
    if op == "count" and sh["kids_leaf"] == ["Null"]:
        return "count-of-null-literal"
    if (op in AGGS) and sh["kids_mistyped"] == [True]:
        # the aggregate allocates its state for the REPORTED argument type and downcasts the argument array to it
        return "aggregate-over-mistyped-argument"
    if op in ("min", "max") and (kd == ["Boolean"] or sh["kids_leaf"] == ["Boolean"]):
        return "min-max-of-boolean"
    if op in SETOPS and op != "unionall":
        ts = {t for t in kd if t not in ("Null",)}
        if None not in kd and "?" not in ts and len(ts) >= 2:
            # INTERSECT / EXCEPT (joins on the raw columns) and UNION's de-duplication compare / re-label representations of different types
            return "setop-branches-of-different-types"
    return None


# ------------------------------------------------------------------------------------- the sub-model run
def replay_case(tree, tab, cfg, sql):
    return {"kind": NAME, "tree": tree["e"], "tab": tab, "cfg": cfg, "sql": sql}


def assess(ctx, trees, outs, tier, name="run"):
    tree_by_key = {t["key"]: t for t in trees}
    runs = {}
    recs = []
    stats = collections.Counter()
    for t in trees:
        for tab in TABLES:
            o = outs[f"{t['n']}.{tab}"]
            for run in o["runs"]:
                runs[(t["n"], tab, run["cfg"])] = run
                ctx.add("evaluations")
                k = run["result"]["k"]
                stats[f"{t['kind']}:{'answered' if k == 'ok' else 'planned-then-' + k if run['physical']['k'] == 'ok' else 'rejected-at-planning' if k == 'err' else k}"] += 1
                if k == "ok":
                    recs.append(trace_record(t, tab, run))
                elif k in ("panic", "hang"):
                    stats["panic_or_hang"] += 1
                    import re
                    cls = f"{k} in {t['e']['op'].upper() if t['kind'] == 'set' else t['kind']}: " + re.sub(r"\d+", "N", run["result"].get("msg", ""))[:100]
                    p = ctx.cov.setdefault("typing_panics_not_judged", {}).setdefault(cls, {"count": 0, "examples": []})
                    p["count"] += 1
                    if len(p["examples"]) < 3:
                        p["examples"].append(f"{stmt_sql(t['e'], TABLES[tab][0])} [{run['cfg']}]")
    rej = judge(ctx, recs, name, 1 if tier == "quick" else 8)
    return tree_by_key, runs, recs, rej, stats


def settle(ctx, trees, tree_by_key, runs, rej, value_is_contract):
    by_n = {t["n"]: t for t in trees}
    counts = collections.Counter()
    examples = {}
    for (n, cfg, tab), r in sorted(rej.items(), key=lambda kv: (kv[0][0], kv[0][2], kv[0][1])):
        tree = by_n[n]
        sql = stmt_sql(tree["e"], TABLES[tab][0])
        if "schema" in r:
            sh = shape_of(tree_by_key, runs, tree, tab, cfg)
            slug = classify_schema(sh)
            fid = F_PREFIX_A + slug if slug else None
            desc = {"sql": sql, "cfg": cfg, "node": expr_sql(sh["node"]) if kind_of(sh["node"]) == "scalar" else stmt_sql(sh["node"], TABLES[tab][0]),
                    "reported": sh["static"], "batches": sh["dyn"], "operand_types": sh["kids_dyn"]}
            if fid and ctx.is_known(fid):
                ctx.known(fid, desc)
                counts["a:" + slug] += 1
            else:
                counts["a:VIOLATION"] += 1
                res = runs[(n, tab, cfg)]["result"]
                ctx.violation(replay_case(tree, tab, cfg, sql),
                              f"typing [{cfg}] reported {res['schema']} plan {runs[(n, tab, cfg)]['physical'].get('schema')} batches {[b['schema'] for b in res['batches']][:3]} :: {sql} "
                              f"(innermost mis-typed node: {desc['node']}: reported {sh['static']}, batches {sh['dyn']}, operands {sh['kids_dyn']}"
                              f"{'; shape of ' + fid + ' which is not listed as open' if fid else ''})")
        if "value" in r:
            sh = value_shape(tree_by_key, runs, rej, tree, tab, cfg, r["value"])
            slug = classify_value(sh)
            fid = F_PREFIX_B + slug if slug else None
            desc = {"sql": sql, "cfg": cfg, "row_or_key": sh["at"], "got": sh["got"], "allowed": sh["want"],
                    "innermost_deviating_node": expr_sql(sh["node"]) if kind_of(sh["node"]) in ("scalar", "agg") else stmt_sql(sh["node"], TABLES[tab][0]),
                    "operand_types": sh["kids_dyn"], "type": sh["dyn"]}
            key = "b:" + (slug or "UNCLASSIFIED")
            counts[key] += 1
            examples.setdefault(key, []).append(desc)
            if value_is_contract:
                if fid and ctx.is_known(fid):
                    ctx.known(fid, desc)
                else:
                    ctx.violation(replay_case(tree, tab, cfg, sql), f"typing [{cfg}] value: row {sh['at']} returned {sh['got']}, the model allows {sh['want']} (units of 1/2, base-{BM} digits) :: {sql}")
    return counts, examples


def dump_rejections(ctx, trees, tree_by_key, runs, rej):
    by_n = {t["n"]: t for t in trees}
    out = []
    for (n, cfg, tab), r in sorted(rej.items()):
        tree = by_n[n]
        d = {"sql": stmt_sql(tree["e"], TABLES[tab][0]), "cfg": cfg, "tab": tab, "kind": tree["kind"]}
        if "schema" in r:
            sh = shape_of(tree_by_key, runs, tree, tab, cfg)
            sh["node"] = expr_sql(sh["node"]) if kind_of(sh["node"]) == "scalar" else stmt_sql(sh["node"], "t")
            d["schema"] = sh
            d["schema_class"] = classify_schema(dict(sh, node=blame(tree_by_key, runs, tree["e"], tab, cfg)))
        if "value" in r:
            d["value"] = value_shape(tree_by_key, runs, rej, tree, tab, cfg, r["value"])
            d["value_class"] = classify_value(d["value"])
            d["value"]["node"] = stmt_sql(d["value"]["node"], "t")
        out.append(d)
    json.dump(out, open(os.path.join(ctx.work, "rejections.json"), "w"), indent=0)


def drift_stats(trees, runs, cfg0="mem1"):
    """WHICH type the engine reports versus the dialect (fidelity only)"""
    d = collections.Counter()
    ex = {}
    for t in trees:
        m = t["model"]
        if m is None:
            continue
        run = runs.get((t["n"], "s", cfg0)) or runs.get((t["n"], "s", "mem3"))
        if run is None:
            continue
        lt = ecol(run["logical"]["schema"]) if run["logical"]["k"] == "ok" else None
        pt = ecol(run["physical"]["schema"]) if run["physical"]["k"] == "ok" else None
        if lt is not None and pt is not None and lt != pt:
            d["logical-plan-type != physical-plan-type"] += 1
            ex.setdefault("logical-plan-type != physical-plan-type", f"{stmt_sql(t['e'], 'ts')}: {lt} vs {pt}")
        if m["mty"] == "Bad":
            lab = "dialect rejects / engine " + ("answers" if run["result"]["k"] == "ok" else "plans, then fails" if pt else "rejects")
        elif pt is None:
            lab = "dialect types / engine rejects at planning"
        elif run["result"]["k"] != "ok":
            lab = "dialect types / engine plans, then fails at run time"
        elif pt == m["mty"]:
            lab = "same type"
        else:
            alts = sorted(a for a, ty in m["alts"].items() if ty == pt)
            lab = ("alternative " + "+".join(alts)) if alts else ("all alternatives" if m["allalts"] == pt else f"other type (dialect {m['mty']}, engine {pt})")
        d[lab] += 1
        ex.setdefault(lab, stmt_sql(t["e"], "ts"))
    return d, ex


OPEN_A = ["int32-arithmetic-reported-int64", "case-else-float64", "date-arithmetic", "union-all-branch-types", "and-true-non-boolean-operand"]
OPEN_B = ["case-else-cast-to-then-type", "count-of-null-literal", "aggregate-over-mistyped-argument", "min-max-of-boolean", "setop-branches-of-different-types"]


def vacuity(ctx, tier, trees, recs, counts):
    """a family never answered / never value-judged is a tool error, not a pass; a listed finding that no longer reproduces is a note"""
    by_n = {t["n"]: t for t in trees}
    judged = collections.Counter()
    valued = collections.Counter()
    for r in recs:
        t = by_n[r["id"]]
        judged[t["kind"]] += 1
        m = t["model"]
        if m is not None and m["mty"] != "Bad" and r["rows"] and r["okind"] in ("null", type_kind(m["mty"])):
            valued[t["kind"] + ":" + r["tab"]] += 1
    ctx.set("typing_judged_by_kind", dict(judged))
    ctx.set("typing_value_verdicts_by_kind_and_table", dict(valued))
    need = {"scalar": 400, "agg": 20, "group": 50, "set": 100} if tier == "quick" else {"scalar": 5000, "agg": 200, "group": 300, "set": 1000}
    short = [f"{k}: {judged[k]} answered statements judged (< {n})" for k, n in need.items() if judged[k] < n]
    short += [f"{k}: no statement whose values were judged" for k in ("scalar:s", "scalar:b", "agg:s", "agg:b", "group:s", "set:s", "set:b") if valued[k] == 0]
    if short:
        raise vlib.ToolError("typing vacuity: " + "; ".join(short))
    if tier == "thorough":
        for slug in OPEN_A:
            if ctx.is_known(F_PREFIX_A + slug) and counts["a:" + slug] == 0:
                ctx.notes.append(f"typing: open finding {F_PREFIX_A + slug} did not reproduce on any statement of this run (fixed?)")
        if ctx.pid in ("C01", "X04"):
            for slug in OPEN_B:
                if ctx.is_known(F_PREFIX_B + slug) and counts["b:" + slug] == 0:
                    ctx.notes.append(f"typing: open finding {F_PREFIX_B + slug} did not reproduce on any statement of this run (fixed?)")


def run_sub(ctx, tier=None):
    tier = tier or ctx.tier
    value_is_contract = ctx.pid in ("C01", "X04")
    t0 = time.time()
    cases = run_models(ctx, tier)
    t1 = time.time()
    trees, items = plan_cases(ctx, cases, tier)
    layouts = layouts_for(tier)
    outs = run_harness(ctx, items, layouts, "typing", 4 if tier == "quick" else 8)
    t2 = time.time()
    tree_by_key, runs, recs, rej, stats = assess(ctx, trees, outs, tier)
    t3 = time.time()
    ctx.set("typing_wall", {"tlc_model_s": round(t1 - t0, 1), "harness_s": round(t2 - t1, 1), "tlc_judge_s": round(t3 - t2, 1)})
    vlib.log(f"[typing] model {t1 - t0:.1f}s harness {t2 - t1:.1f}s judge {t3 - t2:.1f}s ({len(items)} statements, {len(runs)} executions, {len(recs)} judged)")
    counts, examples = settle(ctx, trees, tree_by_key, runs, rej, value_is_contract)
    if os.environ.get("VERIF_TYPING_DEBUG"):
        dump_rejections(ctx, trees, tree_by_key, runs, rej)
    drift, dex = drift_stats(trees, runs)
    vacuity(ctx, tier, trees, recs, counts)
    answered = {r["id"] for r in recs if r["rows"]}
    ctx.add("distinct_nontrivial", len(answered))
    ctx.set("typing_cases_from_tlc", dict(collections.Counter(c["kind"] for c in cases)))
    ctx.set("typing_statements", {"trees": len(trees), "derived_subtrees": sum(1 for t in trees if t["derived"]), "executions": len(runs), "judged_by_TypingTrace": len(recs)})
    ctx.set("typing_outcomes", dict(stats))
    for cls, p in sorted(ctx.cov.get("typing_panics_not_judged", {}).items()):
        ctx.notes.append(f"typing: engine {cls} x{p['count']} (a panic is not judged here - C29's subject), e.g. {p['examples'][0]}")
    ctx.set("typing_rejections", dict(counts))
    ctx.set("typing_type_choice_drift", dict(drift))
    ctx.set("typing_type_choice_examples", dex)
    ctx.set("typing_rule", "TLC enumerates every tree of Typing.tla's grammar inside the tier's bounds (quick: depth 2 over 8 leaves with + - / and = <; thorough: every operator at depth 2 over 13 leaves, "
            "a depth-3 family, aggregates over expressions, 2- and 3-branch set operations). Each tree and each of its sub-expressions is executed on both tables in "
            f"{'/'.join(c['name'] for c in layouts['s'])} layouts (table tb: {'/'.join(c['name'] for c in layouts['b'])}). distinct_nontrivial += trees the engine answered with at least one row.")
    for k, v in sorted(examples.items()):
        if not value_is_contract:
            ctx.notes.append(f"typing: contract (b) [C01] deviation class {k}: {counts[k]} statements, e.g. {json.dumps(v[0])[:400]}")
    for lab in sorted(drift):
        if lab != "same type" and len(ctx.notes) < 80:
            ctx.notes.append(f"typing drift: {lab}: {drift[lab]} trees, e.g. {dex[lab]}")
    for t in (trees[0], trees[len(trees) // 2], trees[-1]):
        ctx.sample({"typing_sql": stmt_sql(t["e"], "ts"), "model_type": (t["model"] or {}).get("mty")})
    ctx.assumptions += [
        "typing: the driver's rendering of a tree to SQL text and its mapping of returned cells into the model's value domain (exact rationals, base-2^31 digits with small "
        "coefficients; anything else is OFF and never equals an expected value) are trusted",
        "typing: a statement the engine does not answer (planning error, run-time error, panic, hang) is not judged; contract (a) is C30's rule for answered statements",
        "typing: contract (b) tolerates the NULL-strict AND/OR of C02's finding, and judges set operations on the set of non-NULL values (NULLs and multiplicities are C24's)"]
    return counts


# ------------------------------------------------------------------------------------- replay
def replay_sub(ctx, obj):
    c = obj["case"]
    e = c["tree"]
    tree = {"e": e, "model": None, "derived": False}
    trees, items = plan_cases(ctx, [{"e": e, "kind": kind_of(e)}], "quick")
    for it in items:
        it["group"] = it["group"][0]
    outs = run_harness(ctx, items, {c["tab"]: [CONFIGS[c["cfg"]]]}, "replay", 1)
    outs.update({f"{t['n']}.{tab}": {"runs": []} for t in trees for tab in TABLES if f"{t['n']}.{tab}" not in outs})
    tree_by_key, runs, recs, rej, stats = assess(ctx, trees, outs, "quick", name="replay")
    root = tree_by_key[tkey(e)]
    rej = {k: v for k, v in rej.items() if k[0] == root["n"] and k[2] == c["tab"]}
    counts, _ = settle(ctx, trees, tree_by_key, runs, rej, ctx.pid in ("C01", "X04"))
    ctx.add("distinct_nontrivial", 1)
    ctx.sample({"sql": c["sql"], "verdict": dict(counts), "record": json.dumps(runs[(root["n"], c["tab"], c["cfg"])])[:1200]})


# ------------------------------------------------------------------------------------- selftest
def selftest_sub(ctx):
    bad = 0
    # (1) the laws are sensitive: every seeded mistake of the spec is refuted by TLC
    bad += len(run_mutants(ctx, "selftest"))
    # (2) the judgement rejects corrupted records of real runs
    col = lambda t: {"op": "col", "ty": t, "v": 0, "kids": []}
    n2 = lambda o, a, b: {"op": o, "ty": "", "v": 0, "kids": [a, b]}
    trees_in = [n2("add", col("Int32"), col("Int64")), n2("lt", col("Int32"), col("Float64")), {"op": "cast", "ty": "Int32", "v": 0, "kids": [col("Int64")]},
                {"op": "sum", "ty": "", "v": 0, "kids": [col("Int32")]}, {"op": "group", "ty": "Utf8", "v": 0, "kids": [{"op": "max", "ty": "", "v": 0, "kids": [col("Float64")]}]},
                n2("unionall", col("Int64"), col("Int64")), n2("coalesce", col("Float64"), col("Float64"))]
    trees, items = plan_cases(ctx, [{"e": e} for e in trees_in], "quick")
    outs = run_harness(ctx, items, {"s": [CONFIGS["mem1"], CONFIGS["mem3"]], "b": [CONFIGS["mem1"], CONFIGS["mem3"]]}, "selftest", 2)   # depth <= 2: groups s / b only
    tree_by_key, runs, recs, rej, _ = assess(ctx, trees, outs, "quick", name="st0")
    roots = {tree_by_key[tkey(e)]["n"] for e in trees_in}
    recs = [r for r in recs if r["id"] in roots]
    if len(recs) != len(trees_in) * 4 or any(k[0] in roots for k in rej):
        print(f"selftest: the unmodified records are not all answered and accepted ({len(recs)} records, rejections {[k for k in rej if k[0] in roots]})")
        bad += 1
    muts = []
    for r in recs:
        m = copy.deepcopy(r)
        m["batches"][0][-1][1] = "Int32" if m["batches"][0][-1][1] != "Int32" else "Int64"
        muts.append((m, "schema", "a returned batch's column type differs from the reported one"))
        m = copy.deepcopy(r)
        m["report"][-1][1] = "Float64" if m["report"][-1][1] != "Float64" else "Int64"
        m["plan"] = copy.deepcopy(m["report"])
        for b in m["batches"][1:]:
            b[-1][1] = m["report"][-1][1]
        muts.append((m, "schema", "the result and the plan report a type the first batch does not have"))
        m = copy.deepcopy(r)
        m["plan"][-1][0] = "renamed"
        muts.append((m, "schema", "the physical plan (Flight GetSchema) names the column differently"))
        m = copy.deepcopy(r)
        i = next(i for i, row in enumerate(m["rows"]) if row[-1] != NULL)
        m["rows"][i][-1] += 2
        muts.append((m, "value", "a returned value is off by one"))
        if r["tab"] == "b" and r["kind"] == "scalar" and r["e"]["op"] in ("add", "cast", "coalesce"):
            m = copy.deepcopy(r)
            i = next((i for i, row in enumerate(m["rows"]) if row[-1] != NULL and abs(row[-1]) >= BM), None)
            if i is not None:
                m["rows"][i][-1] -= 2 * 2 * BM          # the value minus 2^32 (wrapped through 32 bits)
                muts.append((m, "value", "a value beyond 32 bits comes back wrapped modulo 2^32"))
        if r["kind"] == "scalar":
            m = copy.deepcopy(r)
            m["rows"].pop()
            muts.append((m, "value", "a row is missing"))
            if r["e"]["op"] == "lt":
                m = copy.deepcopy(r)
                for row in m["rows"]:
                    if row[-1] != NULL:
                        row[-1] = 1 - row[-1]
                muts.append((m, "value", "a mixed-type comparison gives the opposite truth value"))
    for i, (m, _, _) in enumerate(muts):
        m["id"] = i
    rej1 = judge(ctx, [m for m, _, _ in muts], "st1", 2)
    missed = collections.Counter()
    for i, (m, why, what) in enumerate(muts):
        if why not in rej1.get((i, m["cfg"], m["tab"]), {}):
            missed[what] += 1
    kinds = collections.Counter(what for _, _, what in muts)
    for what, n in kinds.items():
        ok = missed[what] == 0
        print(f"selftest: {'rejected' if ok else 'ACCEPTED (binding lost)'} x{n - missed[what]}/{n}: {what}")
        bad += 0 if ok else 1
    # (3) a corrupted record never falls into a listed finding's shape by accident: the shape is read from the engine's own sub-expression runs
    sh = {"names_ok": True, "arity_ok": True, "plan_ok": True, "other_cols_ok": True, "op": "add", "cast_to": "", "kids_static": ["Int32", "Int64"], "kids_dyn": [["Int32"], ["Int64"]],
          "static": "Int64", "dyn": ["Int32"], "node": trees_in[0], "at_root": True}
    ok = classify_schema(sh) is None
    print(f"selftest: {'violation' if ok else 'CLASSIFIED AS KNOWN'}: Int32 + Int64 answered as Int32 is not the shape of any listed finding")
    bad += 0 if ok else 1
    return 1 if bad else 0
