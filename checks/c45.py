"""C45 — gathered tables carry every column the statement reads."""
import sqlprop, sqlcheck
LEVEL = "model_checking"
CFGS = [sqlprop.cfg("single_pq", layout="parquet", files=2, rg=2),
        sqlprop.cfg("dist2", layout="parquet", files=2, rg=1, dist=2),
        sqlprop.cfg("dist3", layout="parquet", files=1, rg=1, dist=3),
        sqlprop.cfg("dist4", layout="parquet", files=3, rg=2, dist=4)]
BIND = ("ColumnNotFound", "TableNotFound", "Plan", "Internal", "Type")


def cross(cases, outs, cfgs):
    """gather path: re-running the statement over the gathered tables must bind"""
    byid = {c["id"]: c for c in cases}
    extra = []
    for o in outs:
        if o["outs"][0]["k"] != "rows":
            continue
        for i, x in enumerate(o["outs"]):
            if i == 0 or x["k"] != "err":
                continue
            msg = x.get("msg", "")
            if x.get("cls") in BIND or "not found" in msg.lower() or "unresolved" in msg.lower():
                extra.append((byid[o["id"]], i, "gathered-statement-does-not-bind", f"{cfgs[i]['name']}: {msg[:140]}"))
    return extra


def run(ctx):
    sqlprop.run_sql_property(ctx, corpus=["cjoins", "subq", "cte", "setop", "limit0"], seeded=[], cfgs=CFGS, quick_n=150, thorough_n=1200, cross=cross,
        rule="Statements that take the gather path (joins, self-joins, correlated and uncorrelated subqueries, CTEs, set operations; filters the "
             "optimizer pushes into scans; projections that prune all but the filter column) are forced through execute_any_distributed for 2-4 "
             "participants; re-running the statement over the gathered tables must bind (no column/table resolution error where the single node "
             "answers) and its answer is judged by TLC against SqlSem.")


def replay(ctx, obj):
    sqlcheck.replay_sql(ctx, obj)


def selftest(ctx):
    return sqlprop.selftest(ctx, [])
