"""X05 — stand-alone wrapper of the sub-model "RuntimeFilter" (checks/rtfilter.py; parent property for findings: C22).

./check X05 --tier quick|thorough|--selftest|--replay <file>.  Evidence goes to work/evidence_extra/X05.json.
Not wired into any parent check; replay objects carry case["kind"] == "rtfilter"."""
import rtfilter as _r
LEVEL = "model_checking"


def run(ctx):
    _r.run_sub(ctx)
    ctx.set("rule", ctx.cov.get("rtfilter_rule", ""))
    ctx.cov.setdefault("distinct_nontrivial", 0)
    ctx.cov.setdefault("evaluations", 0)
    ctx.cov.setdefault("traces_validated_against_impl", 0)


def replay(ctx, obj):
    _r.replay_sub(ctx, obj)
    ctx.cov.setdefault("evaluations", 0)


def selftest(ctx):
    return _r.selftest_sub(ctx)
