"""C32 — join reordering never introduces a cross product (JoinGraph.tla / JoinGraphTrace.tla)."""
import json, os, random
import sqlcheck, sqlloop, sqlprop, optprop, vlib
LEVEL = "model_checking"

CFGS = [
    dict(name="mem_norules", layout="mem", rules=[]),
    dict(name="mem_JoinReorder", layout="mem", rules=["JoinReorder"]),
    dict(name="pq_JoinReorder", rules=["JoinReorder"], **optprop.PQ),
    dict(name="pq_pushdown_then_reorder", rules=["PredicatePushdown", "JoinReorder"], **optprop.PQ),
    dict(name="pq_production_list", rules=optprop.PRODUCTION, **optprop.PQ),
    dict(name="mem_production_list", layout="mem", rules=optprop.PRODUCTION),
    dict(name="pq_prod", **optprop.PQ),
]


def records(cases, outs):
    byid = {c["id"]: c for c in cases}
    recs = []
    for o in outs:
        g = byid[o["id"]]["graph"]
        for i, m in enumerate(o["meta"]):
            pl = (m.get("plan") or {}).get("after")
            if i == 0 or pl is None:
                continue
            recs.append({"id": o["id"], "cfg": i, "planned": 1, "rels": g["rels"], "edges": g["edges"],
                         "joins": [{"kind": j["kind"], "left": j["left"], "right": j["right"], "on": [[x[0], x[1]] for x in j["on"]],
                                    "filter_rels": j["filter_rels"]} for j in pl["joins"]],
                         "filters": [{"rels": f["rels"]} for f in pl["filters"]], "planrels": pl["rels"]})
    return recs


def judge(ctx, cases, outs, name):
    recs = records(cases, outs)
    path = os.path.join(ctx.work, f"{name}.jg.ndjson")
    vlib.write_ndjson(path, recs)
    res = vlib.run_tlc("JoinGraphTrace", "JoinGraphTrace.cfg", workers=1, env={"TRACE": path}, deque=True, timeout=1800, tag=f"C32-{name}")
    if res.error or not any(k == "ACCEPT" for k, _ in res.prints):
        vlib.log(res.out[-3000:])
        raise vlib.ToolError("JoinGraphTrace did not consume the trace")
    ctx.tlc_stats(res, f"JoinGraphTrace validation of {len(recs)} reordered plans ({name})")
    ctx.add("traces_validated_against_impl", 1)
    return [(r["id"], r["cfg"]) for k, r in res.prints if k == "REJECT"], recs


def run(ctx):
    res = vlib.run_tlc("JoinGraph", f"JoinGraph_{ctx.tier}.cfg", workers=4, timeout=1800, coverage=(ctx.tier == "thorough"))
    vlib.tlc_must_pass(res, "JoinGraph")
    ctx.tlc_stats(res, "JoinGraph: every connected graph on <=N relations; cross-product-free enumeration never deadlocks; tree contract")
    known = sqlcheck.load_known(ctx.pid)
    cases = sqlcheck.load_corpus("joingraph", 2000 if ctx.tier == "thorough" else None)
    if ctx.tier != "thorough":
        random.Random(ctx.seed).shuffle(cases)
        cases = cases[:250]
    # answers are judged too (C03-style), structure by JoinGraphTrace
    rejrows = sqlcheck.run_family(ctx, "joingraph", cases, CFGS, known, tier_name="corpus")
    outs = vlib.read_ndjson(os.path.join(ctx.work, "corpus-joingraph", "out.ndjson"))
    rej, recs = judge(ctx, cases, outs, "joingraph")
    byid = {c["id"]: c for c in cases}
    shapes = set()
    reordered = 0
    for o in outs:
        for i, m in enumerate(o["meta"]):
            pl = m.get("plan") or {}
            if pl.get("changed") and "JoinReorder" in CFGS[i]["name"]:
                reordered += 1
                shapes.add((sqlcheck.case_hash(byid[o["id"]]), i))
    ctx.set("plans_changed_by_JoinReorder", reordered)
    if reordered < 20:
        raise vlib.ToolError("JoinReorder hardly ever changed a plan: coverage hole")
    learned = {}
    for (cid, ci) in rej:
        c = byid[cid]; h = sqlcheck.case_hash(c); cfgname = CFGS[ci]["name"]
        listed = known.get("joingraph", {}).get(h, {}).get(cfgname)
        if listed is not None and ctx.is_known(f"C32/{listed}"):
            ctx.known(f"C32/{listed}", {"sql": c["sql"][:160], "cfg": cfgname, "hash": h}); continue
        if os.environ.get("VERIF_LEARN"):
            learned.setdefault("joingraph", {}).setdefault(h, {})[cfgname] = "cross-product-or-lost-input"; continue
        o = next(o for o in outs if o["id"] == cid)
        ctx.violation({"kind": "sql", "family": "joingraph", "case": c, "cfg": CFGS[ci], "label": "cross-product-or-lost-input",
                       "plan": (o["meta"][ci].get("plan") or {}).get("after")},
                      f"[{cfgname}] reordered plan has a cross product / lost an input or predicate: {c['sql'][:200]}")
    if learned:
        ctx.cov.setdefault("_learned", {}).update(learned)
    ctx.cov["_nontrivial_hashes"] = shapes
    sqlcheck.finish_cov(ctx, "TLC explores every connected join graph on <=4/5 relations (design model). Corpus: connected graphs of 2..7 relations "
                             "(chains, stars, cycles, random, composite keys; FROM order shuffled; sizes differ) as comma joins + WHERE; JoinReorder alone "
                             "(with and without statistics), after PredicatePushdown, and inside the production list (PackedJoinKeys after the fixpoint); "
                             "the resulting LogicalPlan's join tree is validated by JoinGraphTrace.tla; answers are validated by SqlTrace. Non-trivial = "
                             "distinct (graph, rule list) where JoinReorder changed the plan.")


def replay(ctx, obj):
    c = obj["case"]["case"]
    outs = sqlloop.run_cases(ctx, [c], CFGS, "replay")
    rej, _ = judge(ctx, [c], outs, "replay")
    ctx.add("evaluations"); ctx.set("distinct_nontrivial", 2); ctx.sample({"sql": c["sql"]})
    if rej:
        ctx.violation(obj["case"], "replayed: cross product / lost input")


def selftest(ctx):
    cases = sqlcheck.load_corpus("joingraph", 40)
    outs = sqlloop.run_cases(ctx, cases, CFGS[:3], "selftest")
    rej0, _ = judge(ctx, cases, outs, "st0")
    n = 0
    for o in outs:
        pl = (o["meta"][1].get("plan") or {}).get("after")
        if pl and pl["joins"]:
            pl["joins"][0]["kind"] = "cross"; pl["joins"][0]["on"] = []; n += 1
    rej1, _ = judge(ctx, cases, outs, "st1")
    print(f"selftest: {n} plans corrupted into cross joins, rejects {len(rej0)} -> {len(rej1)}")
    return 0 if n > 0 and len(rej1) >= len(rej0) + n else 1
