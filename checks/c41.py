"""C41 — chunked metastore responses decode exactly (Chunked.tla)."""
import json, os
import vlib
from vlib import run_tlc, tlc_must_pass, qev, write_ndjson, read_ndjson

LEVEL = "model_checking"

# Sizes TLC's 32-bit integers cannot hold: by the reference machine a size line
# announcing more data than the stream holds is malformed.
HUGE = ["ffffffffffffffff", "fffffffffffffffe", "8000000000000000", "7fffffffffffffff",
        "ffffffff", "100000000", "fffffffffffffffff", "0000000000000000000000001"]


def huge_cases():
    out = []
    for h in HUGE:
        for tail in ([], [120], [120, 13, 10], [120, 13, 10, 48, 13, 10, 13, 10]):
            if h == "0000000000000000000000001":
                # leading zeros: size 1
                verdict = "valid" if tail == [120, 13, 10, 48, 13, 10, 13, 10] else "malformed"
                body = [120] if verdict == "valid" else []
            else:
                verdict, body = "malformed", []
            out.append({"hexsize": h, "tail": tail, "verdict": verdict, "body": body, "enc": 0})
    return out


def judge(r):
    """contract: valid -> Some(body); malformed -> None; lenient -> None | Some(body); never panic."""
    v, oc = r["verdict"], r["outcome"]
    if oc == "panic":
        return "decoder panicked: " + r.get("msg", "")[:120]
    if v == "valid":
        if oc != "some":
            return "valid chunked message rejected"
        if r["got"] != r["body"]:
            return f"decoded body {r['got']} != {r['body']}"
    elif v == "malformed":
        if oc == "some":
            return "malformed framing accepted"
    elif v == "lenient":
        if oc == "some" and r["got"] != r["body"]:
            return f"decoded body {r['got']} != {r['body']}"
    return None


# deviations of the unchanged tree (listed in known_findings.jsonl when open)
def classify_known(r, why):
    b = r.get("bytes", [])
    if "valid chunked message rejected" in why and 59 in b:
        return "C41/chunk-extension-rejected"
    if "panicked" in why and "hexsize" in r:
        return "C41/huge-size-overflow"
    if "malformed framing accepted" in why:
        return "C41/data-crlf-unchecked"
    return None


def replay_cases(ctx, cases, tag, depth=0):
    """runs the decoder on every case; if the harness PROCESS dies (abort / stack overflow: not catchable as a
    panic) the batch is bisected until the offending input is isolated and recorded with outcome "abort"."""
    inp = os.path.join(ctx.work, f"{tag}.in.ndjson")
    outp = os.path.join(ctx.work, f"{tag}.out.ndjson")
    write_ndjson(inp, cases)
    p = qev(["chunk-replay", inp, outp], check=False)
    if p.returncode == 0:
        return read_ndjson(outp)
    if len(cases) == 1:
        r = dict(cases[0]); r["got"] = []; r["outcome"] = "panic"; r["msg"] = f"decoder killed the process (exit {p.returncode}): {p.stderr[-200:]}"
        return [r]
    if depth > 40:
        raise vlib.ToolError("chunk-replay keeps dying")
    h = len(cases) // 2
    return replay_cases(ctx, cases[:h], tag + "a", depth + 1) + replay_cases(ctx, cases[h:], tag + "b", depth + 1)


def run(ctx):
    t = ctx.tier
    allc = []
    for fam in ("enc", "strings", "mutants"):
        cfg = f"Chunked_{fam}_{t}.cfg"
        res = run_tlc("Chunked", cfg, workers=6, timeout=2400, heap="6g")
        tlc_must_pass(res, f"Chunked/{fam}")
        ctx.tlc_stats(res, f"Chunked reference machine, family {fam}: RoundTrip law + verdict of every input")
        if len(res.cases) < 500:
            raise vlib.ToolError("Chunked emitted too few cases")
        allc += res.cases
    allc += huge_cases()
    outs = replay_cases(ctx, allc, "cases")
    classes = {}
    nontrivial = set()
    for r in outs:
        ctx.add("evaluations")
        classes[r["verdict"]] = classes.get(r["verdict"], 0) + 1
        key = json.dumps(r.get("bytes", r.get("hexsize")))
        if r["verdict"] in ("valid", "lenient") and len(r["body"]) >= 1 or r["verdict"] == "malformed" and len(r.get("bytes", [1, 1, 1])) >= 3:
            nontrivial.add(key + json.dumps(r.get("tail", "")))
        why = judge(r)
        if why:
            case = {k: r[k] for k in r if k in ("bytes", "hexsize", "tail", "verdict", "body", "enc")}
            fid = classify_known(r, why)
            if fid and ctx.is_known(fid):
                ctx.known(fid, {"case": case, "why": why})
            else:
                ctx.violation(case, why)
    for c in allc[:2] + allc[len(allc) // 2: len(allc) // 2 + 2] + allc[-2:]:
        ctx.sample(c)
    ctx.set("verdict_classes", classes)
    ctx.set("distinct_nontrivial", len(nontrivial))
    ctx.set("traces_validated_against_impl", len(outs))
    ctx.set("rule", "TLC runs the RFC 7230 reference decoder (one action per byte) over (a) every encoding of every body "
            "<=MaxBody bytes over {x,0,CR,LF} in every chunk composition with/without extensions, plus long chunks with 2-digit "
            "and upper-case sizes, and (b) every byte string <=MaxLen over {0,1,f,;,CR,LF,x}; each input with its verdict is replayed "
            "on the real decoder. Huge hex sizes are added as abstract 'more than available' tokens. Non-trivial = distinct input with a "
            "non-empty body or a malformed input of >=3 bytes.")
    ctx.set("exhaustive", True)
    ctx.assumptions += ["stray whitespace adjacent to a size token is left unspecified (any non-panic outcome accepted)",
                        "after the last-chunk line, a missing/irregular trailer is lenient: reject or exact body"]


def replay(ctx, obj):
    c = obj["case"]
    r = replay_cases(ctx, [c], "replay")[0]
    ctx.add("evaluations"); ctx.set("distinct_nontrivial", 1); ctx.sample(r)
    why = judge(r)
    if why:
        ctx.violation(c, why)
