"""C16 — peer HTTP responses are framed or rejected (HttpFraming.tla, HttpFramingContract.tla, HttpFramingTrace.tla).

(M) TLC explores the server/client transition system: every stream of the bounded grammar, closed at
    every truncation point or stalled; three conforming client designs must satisfy the contract, the
    as-built design and seven mutants must be rejected by it somewhere (kill matrix, vacuity guard).
(R) every terminal state is a case (concrete bytes + the set of allowed Ok shapes computed by the spec);
    harness/src/http.rs serves the bytes over a real loopback socket to the real http_client and the
    outcome must be in the allowed set.  Non-ideal outcomes and a sample of the others are re-judged by
    TLC (HttpFramingTrace) - the driver and the spec must agree.
(V) random exchanges (bigger bodies/headers, random cuts and segmentation) recorded from the real client
    are validated line by line against the contract by TLC.
"""
import collections
import concurrent.futures as cf
import json
import os
import random

import vlib
from vlib import run_tlc, tlc_must_pass, qev, write_ndjson, read_ndjson, validate_records

LEVEL = "model_checking"

DEV_ID = {"ignore_cl": "C16/content-length-ignored", "hdr_as_status": "C16/header-line-as-status"}
OTHERS = ["as_built", "m_status200", "m_short", "m_bodyterm", "m_notimeout", "m_panic", "m_drophdr", "m_halfheader"]
ACTIONS = ["SendStatus", "SendHeader", "SendContentLength", "SendEnd", "SendBodyByte", "Close", "Stall", "Timeout"]
T_STALL_MS = 300
T_CLOSE_MS = 4000
JQUICK = "-Xss16m -XX:ParallelGCThreads=2 -Xms1g -Xmn512m -XX:TieredStopAtLevel=1"
JLONG = "-Xss64m -XX:ParallelGCThreads=4 -Xms4g -Xmn2g"
JTRACE = "-Xss256m -XX:ParallelGCThreads=2 -Dtlc2.tool.queue.IStateQueue=StateDeque"


# ------------------------------------------------------------------ judging (plain membership)
def _included(req, got):
    g = {tuple(h) for h in got}
    return all(tuple(h) in g for h in req)


def judge(case, r, open_devs):
    """-> ("ok", None) | ("known", [devs]) | ("violation", why).  `case["entries"]` is the spec's set of
    allowed Ok shapes, each under a deviation set d (d = [] is the ideal contract)."""
    k = r["k"]
    if k == "err":
        return "ok", None
    if k == "panic":
        return "violation", "the client panicked"
    if k == "hang":
        return "violation", "no answer within 5x the timeout (hang)"
    if k != "ok":
        return "violation", f"unknown outcome class {k}"
    for e in sorted(case["entries"], key=lambda e: len(e["d"])):
        if r["status"] == e["status"] and _included(e["hdrs"], r["hdrs"]) and r["body"] in e["bodies"]:
            if not e["d"]:
                return "ok", None
            if set(e["d"]) <= open_devs:
                return "known", sorted(e["d"])
            return "violation", why_not(case, r) + f" (the shape of {[DEV_ID[d] for d in e['d']]}, not an open finding)"
    return "violation", why_not(case, r)


def why_not(case, r):
    o = case["o"]
    if not o["hc"]:
        return "Ok returned although the header block was never completed"
    if o["status"] == vlib.NULL:
        return f"Ok(status={r['status']}) returned although the stream has no parsable status line"
    if r["status"] != o["status"]:
        return f"Ok(status={r['status']}) but the peer sent status {o['status']}"
    if not _included(o["hdrs"], r["hdrs"]):
        return f"headers {r['hdrs']} do not include the headers sent {o['hdrs']}"
    nums = o["clnums"]
    if nums and not o["clbad"] and len(r["body"]) < min(nums):
        return f"Ok with a {len(r['body'])}-byte body, shorter than the declared Content-Length {shown_cl([min(nums)])[0]}"
    return f"Ok body {r['body'][:40]} is not the body sent {o['body'][:40]} (nor that body cut at a declared Content-Length)"


def nontrivial(case):
    o = case["o"]
    nums = o["clnums"]
    b = o["body"]
    crlf2 = any(b[i:i + 4] == [13, 10, 13, 10] for i in range(len(b)))
    return bool((not o["hc"] and case["bytes"]) or o["status"] == vlib.NULL or o["clbad"] or not o["allwf"]
                or len(nums) > 1 or (nums and min(nums) != len(b)) or crlf2 or case["end"] == "stall")


# ------------------------------------------------------------------ TLC pieces
def tlc_family(cfg, tier, workers, coverage=False):
    env = {"JAVA_TOOL_OPTIONS": JQUICK if tier == "quick" else JLONG}
    res = run_tlc("HttpFraming", cfg, workers=workers, timeout=3000, heap="6g", env=env, coverage=coverage,
                  tag="C16-" + cfg.replace(".cfg", ""))
    tlc_must_pass(res, cfg)
    return res


def tlc_expect_violation(cfg, inv):
    res = run_tlc("HttpFraming", cfg, workers=1, timeout=600, heap="2g", env={"JAVA_TOOL_OPTIONS": JQUICK},
                  tag="C16-" + cfg.replace(".cfg", ""))
    if res.error or res.violated != inv:
        vlib.log(res.out[-3000:])
        raise vlib.ToolError(f"{cfg}: expected the model of the as-built design to violate {inv}, got {res.violated or res.error or 'no violation'}"
                             " (the contract lost its teeth)")
    return res


def devs_env(open_devs):
    return ",".join(d for d in ("ignore_cl", "hdr_as_status") if d in open_devs) or "none"


def tlc_judge(ctx, recs, open_devs, name):
    """Run records through HttpFramingTrace.  -> (accepted: bool, {line(1-based): devs}, reject_line or None)."""
    path = os.path.join(ctx.work, f"{name}.ndjson")
    write_ndjson(path, [{"o": r["o"], "r": r["r"]} for r in recs])
    res = run_tlc("HttpFramingTrace", "HttpFramingTrace.cfg", workers=1, timeout=1800, heap="6g",
                  env={"TRACE": path, "C16_DEVS": devs_env(open_devs), "JAVA_TOOL_OPTIONS": JTRACE}, tag=f"C16-{name}")
    devs = {p["line"]: sorted(p["devs"]) for (k, p) in res.prints if k == "DEV"}
    rej = [p for (k, p) in res.prints if k == "REJECT"]
    acc = [p for (k, p) in res.prints if k == "ACCEPT"]
    if rej:
        return False, devs, rej[0]["line"], res
    if acc and res.error is None:
        return True, devs, None, res
    vlib.log(res.out[-4000:])
    raise vlib.ToolError(f"HttpFramingTrace neither accepted nor rejected {name}: {str(res.error)[:300]}")


# ------------------------------------------------------------------ harness pieces
def replay_cases(ctx, cases, tag, conc=96, seed=None, hang_factor=5):
    """Stall cases only wait for the client's timeout, so they run in their own pass at high concurrency."""
    outs = [None] * len(cases)
    for part, pconc in (("close", conc), ("stall", conc * 8)):
        idx = [i for i, c in enumerate(cases) if c["end"] == part]
        if not idx:
            continue
        inp = os.path.join(ctx.work, f"{tag}.{part}.in.ndjson")
        outp = os.path.join(ctx.work, f"{tag}.{part}.out.ndjson")
        slim = []
        for j, i in enumerate(idx):
            c = cases[i]
            d = {"id": j, "bytes": c["bytes"], "end": c["end"]}
            for k in ("nseg", "api"):
                if k in c:
                    d[k] = c[k]
            slim.append(d)
        write_ndjson(inp, slim)
        qev(["http-replay", inp, outp, str(ctx.seed if seed is None else seed), str(pconc), str(T_STALL_MS), str(T_CLOSE_MS), str(hang_factor)],
            timeout=3000)
        got = read_ndjson(outp)
        if len(got) != len(idx) or any(o["id"] != j for j, o in enumerate(got)):
            raise vlib.ToolError("http-replay lost cases")
        for i, o in zip(idx, got):
            outs[i] = o
    return outs


def record(ctx, n, max_body, tag="rec"):
    path = os.path.join(ctx.work, f"{tag}.ndjson")
    qev(["http-record", str(ctx.seed), str(n), path, str(T_STALL_MS), str(T_CLOSE_MS), str(max_body), "48"], timeout=3000)
    return read_ndjson(path)


def open_devs_of(ctx):
    if os.environ.get("VERIF_C16_NO_FINDINGS") == "1":      # test knob: judge as if no finding were open (only ever stricter)
        return set()
    return {d for d, fid in DEV_ID.items() if ctx.is_known(fid)}


def merge_cases(groups):
    """Distinct (bytes, end); the same bytes reached through different token sequences must carry the same verdict."""
    seen = {}
    kills = collections.Counter()
    for cases in groups:
        for c in cases:
            for v in c["kills"]:
                kills[v] += 1
            key = (bytes(c["bytes"]), c["end"])
            p = seen.get(key)
            if p is None:
                seen[key] = c
            elif json.dumps(p["entries"], sort_keys=True) != json.dumps(c["entries"], sort_keys=True):
                raise vlib.ToolError(f"spec inconsistency: byte stream {key} has two different allowed sets")
    return list(seen.values()), kills


def replay_and_judge(ctx, cases, open_devs, tag="cases"):
    """-> list of (case, out, verdict, info); timing anomalies (hang/panic) are re-run once, alone."""
    outs = replay_cases(ctx, cases, tag)
    redo = [i for i, o in enumerate(outs) if o["r"]["k"] in ("hang", "panic")]
    if redo:
        ctx.add("retried_timing_anomalies", len(redo))
        again = replay_cases(ctx, [dict(cases[i], nseg=len(outs[i]["segs"]) or 1, api=outs[i]["api"]) for i in redo], tag + ".retry", conc=4, hang_factor=30)
        for i, o2 in zip(redo, again):
            if o2["r"]["k"] not in ("hang", "panic"):
                ctx.notes.append(f"{outs[i]['r']['k']} on first run did not reproduce: {bytes(cases[i]['bytes'])!r} {cases[i]['end']}")
            outs[i] = o2
    res = []
    for c, o in zip(cases, outs):
        v, info = judge(c, o["r"], open_devs)
        res.append((c, o, v, info))
    return res


def case_for_replay(c, o):
    return {"kind": "case", "bytes": c["bytes"], "text": bytes(c["bytes"]).decode("latin1"), "end": c["end"], "o": c["o"],
            "entries": c["entries"], "toks": c.get("toks"), "nseg": len(o["segs"]) or 1, "api": o["api"], "observed": o["r"],
            "err_kind": o["kind"], "ms": o["ms"]}


# ------------------------------------------------------------------ run
def run(ctx):
    t = ctx.tier
    open_devs = open_devs_of(ctx)
    nrec, max_body = (300, 1500) if t == "quick" else (4000, 6000)
    ex = cf.ThreadPoolExecutor(max_workers=4)
    f_model = ex.submit(tlc_family, f"HttpFraming_{t}.cfg", t, 6 if t == "quick" else 8, t == "thorough")
    # design-level counterexamples for the two deviations of the unchanged tree (the quick tier relies on the kill matrix)
    f_ab1 = ex.submit(tlc_expect_violation, "HttpFraming_asbuilt.cfg", "NoShortBody") if t == "thorough" else None
    f_ab2 = ex.submit(tlc_expect_violation, "HttpFraming_asbuilt2.cfg", "FramedOrRejected") if t == "thorough" else None
    # (V) runs beside the model checking: record random exchanges, then TLC judges them
    f_v = ex.submit(lambda: validate_v(ctx, record(ctx, nrec, max_body), open_devs))
    model = f_model.result()
    ctx.tlc_stats(model, "HttpFraming: families frames (status x headers x Content-Length x body length) and bodies (every body over {x,CR,LF}); "
                  "every truncation point / stall; 3 conforming designs vs contract, kill matrix over 8 non-conforming designs")
    if f_ab1:
        ctx.tlc_stats(f_ab1.result(), "as-built design (Content-Length ignored) violates NoShortBody: counterexample found")
        ctx.tlc_stats(f_ab2.result(), "as-built design (header line as status) violates FramedOrRejected: counterexample found")
        ctx.set("model_counterexamples", {"NoShortBody": "SendStatus(200) SendContentLength SendEnd Close -> as_built answers Ok with a body shorter than declared",
                                          "FramedOrRejected": "no status line, 'X-QE-Rows: 42', CRLF, Close -> as_built answers Ok(status=42)"})
    byfam = collections.Counter(c["fam"] for c in model.cases)
    ctx.set("cases_by_family", dict(byfam))
    if byfam.get("frames", 0) < 2000 or byfam.get("bodies", 0) < 1000:
        raise vlib.ToolError(f"HttpFraming emitted too few cases ({dict(byfam)})")
    cases, kills = merge_cases([model.cases])
    # vacuity: the contract must reject every non-conforming design somewhere
    ctx.set("model_kill_matrix", {v: kills.get(v, 0) for v in OTHERS})
    unk = [v for v in OTHERS if kills.get(v, 0) == 0]
    if unk:
        raise vlib.ToolError(f"the contract rejects no case of the designs {unk} (vacuous contract / bounds too small)")
    if t == "thorough":
        cov = dict(model.coverage)
        missing = [a for a in ACTIONS if cov.get(a, 0) == 0]
        if missing:
            raise vlib.ToolError(f"TLC coverage: actions never taken: {missing}")

    # (R) every case over a real socket against the real client
    judged = replay_and_judge(ctx, cases, open_devs)
    st = collections.Counter()
    kinds = collections.Counter()
    agree = collections.Counter()
    nontriv = 0
    canon_ok = canon_n = 0
    nonideal, ideal = [], []
    stall_ms = []
    for c, o, v, info in judged:
        r = o["r"]
        ctx.add("evaluations")
        st[(c["end"], r["k"])] += 1
        if not o["req_ok"]:
            ctx.add("server_side_request_incomplete")
        if r["k"] == "err":
            kinds[(c["end"], o["kind"])] += 1
        if c["end"] == "stall":
            stall_ms.append(o["ms"])
        if nontrivial(c):
            nontriv += 1
        if c["canon"]:
            canon_n += 1
            canon_ok += r["k"] == "ok"
        for m in ("pa", "pe"):
            p = c[m]
            agree[m] += (p["k"] == r["k"] and (r["k"] != "ok" or (p["status"] == r["status"] and p["body"] == r["body"] and p["nh"] == len(r["hdrs"]))))
        if v == "ok":
            ideal.append((c, o))
        else:
            nonideal.append((c, o, v, info))
            if v == "known":
                for d in info:
                    ctx.known(DEV_ID[d], {"stream": bytes(c["bytes"]).decode("latin1"), "end": c["end"], "returned": {"status": r["status"], "body_len": len(r["body"])},
                                          "declared_content_length": shown_cl(c["o"]["clnums"])})
            else:
                ctx.violation(case_for_replay(c, o), f"{info}; stream {bytes(c['bytes'])!r} then {c['end']}")
    if ctx.cov.get("server_side_request_incomplete", 0) > len(cases) // 100:
        raise vlib.ToolError("scripted server did not receive complete requests (loopback trouble)")
    if canon_n == 0 or canon_ok < 0.9 * canon_n:
        raise vlib.ToolError(f"coverage collapse: only {canon_ok}/{canon_n} canonical complete responses were answered Ok; nothing can be concluded")
    if not stall_ms:
        raise vlib.ToolError("no stall case ran")

    # driver/spec agreement: TLC re-judges all non-ideal outcomes and a seeded sample of the others
    rnd = random.Random(ctx.seed)
    sample = rnd.sample(ideal, min(len(ideal), 500 if t == "quick" else 12000))
    known_recs = [(c, o, info) for (c, o, v, info) in nonideal if v == "known"]
    xs = [{"o": c["o"], "r": o["r"]} for (c, o, _) in known_recs] + [{"o": c["o"], "r": o["r"]} for (c, o) in sample]
    acc, devs, rejline, xres = tlc_judge(ctx, xs, open_devs, "xcheck")
    vinfo = f_v.result()
    ex.shutdown()
    ctx.tlc_stats(xres, f"HttpFramingTrace re-judging {len(xs)} replayed outcomes (driver vs spec agreement)")
    if not acc:
        raise vlib.ToolError(f"driver accepted a replayed outcome the spec rejects: {json.dumps(xs[rejline - 1])[:400]}")
    expect = {i + 1: info for i, (_, _, info) in enumerate(known_recs)}
    if devs != expect:
        raise vlib.ToolError(f"driver and spec disagree on deviation classification ({len(devs)} vs {len(expect)} lines)")
    for (c, o, v, info) in nonideal:
        if v == "violation" and o["r"]["k"] == "ok":
            a2, _, _, _ = tlc_judge(ctx, [{"o": c["o"], "r": o["r"]}], open_devs, "vcheck")
            if a2:
                raise vlib.ToolError(f"driver reports a violation the spec accepts: {bytes(c['bytes'])!r}")
            break
    ctx.set("driver_spec_agreement_checked", len(xs))

    # evidence
    for c, o in ideal[:1] + ideal[len(ideal) // 3:len(ideal) // 3 + 1] + ideal[-1:]:
        ctx.sample({"stream": bytes(c["bytes"]).decode("latin1"), "end": c["end"], "allowed_ok_shapes": c["entries"], "observed": summarize(o)})
    for c, o, v, info in nonideal[:2]:
        ctx.sample({"stream": bytes(c["bytes"]).decode("latin1"), "end": c["end"], "allowed_ok_shapes": c["entries"], "observed": summarize(o), "verdict": v, "why": info})
    ctx.set("outcome_classes", {f"{e}/{k}": n for (e, k), n in sorted(st.items())})
    ctx.set("error_kinds", {f"{e}/{k}": n for (e, k), n in sorted(kinds.items())})
    ctx.set("stall_answer_ms", {"n": len(stall_ms), "max": max(stall_ms), "timeout": T_STALL_MS, "deadline": 5 * T_STALL_MS + 1500})
    ctx.set("fidelity_model_agreement", {"as_built": f"{agree['pa']}/{len(cases)}", "enforce(suggested fix)": f"{agree['pe']}/{len(cases)}"})
    late = sum(1 for (e, k), n in kinds.items() if e == "stall" and k != "TimedOut" for _ in range(n))
    if late:
        ctx.notes.append(f"fidelity: {late} stall cases answered with an error kind other than TimedOut")
    ctx.set("canonical_answered_ok", f"{canon_ok}/{canon_n}")
    ctx.set("distinct_nontrivial", nontriv + vinfo["nontrivial"])
    ctx.set("replayed_cases", len(cases))
    ctx.set("rule", "case = distinct (byte stream, close|stall) emitted by TLC from a terminal state of HttpFraming (plus random recorded exchanges); "
            "non-trivial = the stream has at least one fault feature: truncated inside the header block, garbled/missing status line, malformed "
            "header line, Content-Length absent-with-body/garbage/huge/duplicate or different from the bytes sent (short or surplus), CRLFCRLF inside "
            "the body, or a stall. Canonical complete responses and the empty stream are trivial.")
    ctx.set("exhaustive", True)
    ctx.assumptions += [
        "an error is always an allowed answer (the property says so); that canonical responses are answered Ok is a vacuity guard (exit 2), not contract",
        "with conflicting duplicate Content-Length only the smallest is demanded; a non-numeric or >u64 Content-Length pins nothing",
        "a body cut at a declared Content-Length is accepted as 'the complete body' when the peer sent surplus bytes",
        "stall: any answer within 5x timeout + 1.5 s is in time; a hang/panic is re-run once alone (deadline 30x timeout) before it is reported",
        "header names are compared case-insensitively and values trimmed; order, multiplicity and extra entries are not pinned",
        "grammar bounds: 5 status-line kinds, 5 header kinds, bodies <= 4..6 bytes in the exhaustive families; larger bodies only in the random recorded exchanges",
    ]


def shown_cl(nums):
    return [">=2^32" if n >= 1000000 else n for n in nums]


def summarize(o):
    r = o["r"]
    return {"k": r["k"], "status": r["status"], "hdrs": r["hdrs"], "body": r["body"][:32], "err_kind": o["kind"], "ms": o["ms"], "segments": o.get("segs")}


def validate_v(ctx, recs, open_devs, name="trace"):
    """(V): recorded random exchanges judged by TLC.  DEV lines -> known findings; rejects -> violations
    (a hang/panic record is re-recorded once first)."""
    for attempt in (0, 1):
        dev_lines = {}
        rejected = []
        todo = list(recs)
        base = 0
        nval = 0
        res = None
        for _ in range(6):
            if not todo:
                break
            acc, devs, rejline, res = tlc_judge(ctx, todo, open_devs, name)
            ctx.tlc_stats(res, f"trace validation HttpFramingTrace ({len(todo)} recorded exchanges)")
            for ln, d in devs.items():
                dev_lines[base + ln] = d
            if acc:
                nval += len(todo)
                break
            rejected.append(todo[rejline - 1])
            nval += rejline - 1
            base += rejline
            todo = todo[rejline:]
        if attempt == 0 and any(r["r"]["k"] in ("hang", "panic") for r in rejected):
            ctx.notes.append("a recorded exchange hung/panicked; re-recording once")
            recs = record(ctx, len(recs), max(len(r["o"]["body"]) for r in recs) + 1, tag="rec2")
            continue
        break
    for ln, d in sorted(dev_lines.items()):
        r = recs[ln - 1]
        for x in d:
            ctx.known(DEV_ID[x], {"recorded_exchange": r["i"], "declared_content_length": r["o"]["clnums"], "bytes_sent": len(r["o"]["body"]),
                                  "returned": {"status": r["r"]["status"], "body_len": len(r["r"]["body"])}})
    for r in rejected:
        o = r["o"]
        ctx.violation({"kind": "trace", "rec": {"o": o, "r": r["r"]}, "i": r.get("i")},
                      f"recorded exchange not allowed by the contract: peer sent status {o['status']}, Content-Length {o['clnums']}, {len(o['body'])} body bytes, "
                      f"{o['end']}; client returned {r['r']['k']} status {r['r']['status']} with {len(r['r']['body'])} body bytes")
    ctx.add("traces_validated_against_impl", 1)
    ctx.add("trace_events_validated", nval)
    ctx.add("evaluations", len(recs))
    okn = sum(1 for r in recs if r["r"]["k"] == "ok")
    full = [r for r in recs if r["cut"] == r["full_len"] and r["o"]["end"] == "close" and (not r["o"]["clnums"] or r["o"]["clnums"] == [len(r["o"]["body"])])]
    fullok = sum(1 for r in full if r["r"]["k"] == "ok")
    if not full or fullok < 0.9 * len(full):
        raise vlib.ToolError(f"coverage collapse in recorded exchanges: {fullok}/{len(full)} complete responses answered Ok")
    ctx.set("recorded_exchanges", {"n": len(recs), "ok": okn, "complete_answered_ok": f"{fullok}/{len(full)}", "explained_only_by_open_finding": len(dev_lines),
                                   "max_body": max(len(r["o"]["body"]) for r in recs)})
    nt = sum(1 for r in recs if r["cut"] != r["full_len"] or r["o"]["end"] == "stall" or (r["o"]["clnums"] and r["o"]["clnums"] != [len(r["o"]["body"])])
             or len(r["o"]["body"]) > 6)
    return {"nontrivial": nt}


# ------------------------------------------------------------------ replay
def replay(ctx, obj):
    c = obj["case"]
    open_devs = open_devs_of(ctx)
    ctx.set("distinct_nontrivial", 1)
    if c.get("kind") == "trace":
        # a recorded exchange: re-judge the record with TLC (the random driver is seeded, the record is the evidence)
        acc, devs, _, res = tlc_judge(ctx, [c["rec"]], open_devs, "replay")
        ctx.tlc_stats(res, "replay: HttpFramingTrace on the recorded exchange")
        ctx.add("evaluations"); ctx.sample(c["rec"])
        if not acc:
            ctx.violation(c, "recorded exchange not allowed by the contract")
        for d in devs.get(1, []):
            ctx.known(DEV_ID[d], {"recorded_exchange": c.get("i")})
        return
    judged = replay_and_judge(ctx, [c], open_devs, tag="replay")
    _, o, v, info = judged[0]
    acc, devs, _, res = tlc_judge(ctx, [{"o": c["o"], "r": o["r"]}], open_devs, "replay")
    ctx.tlc_stats(res, "replay: HttpFramingTrace on the re-executed case")
    ctx.add("evaluations"); ctx.sample({"stream": c.get("text"), "end": c["end"], "observed": summarize(o)})
    if (v == "violation") != (not acc) and o["r"]["k"] in ("ok", "err"):
        raise vlib.ToolError("driver and spec disagree on the replayed case")
    if v == "violation":
        ctx.violation(case_for_replay(c, o), info)
    elif v == "known":
        for d in info:
            ctx.known(DEV_ID[d], {"stream": c.get("text"), "end": c["end"]})


# ------------------------------------------------------------------ selftest
def selftest(ctx):
    """Corrupt an allowed set / a recorded body / an outcome class and require detection."""
    open_devs = open_devs_of(ctx)
    res = tlc_family("HttpFraming_bodies_quick.cfg", "quick", 4)
    cases, _ = merge_cases([res.cases])
    cases = [c for c in cases if c["o"]["hc"]][:1500]
    judged = replay_and_judge(ctx, cases, open_devs, tag="selftest")
    if any(v == "violation" for (_, _, v, _) in judged):
        print("selftest: unexpected violation on the uncorrupted cases"); return 1
    oks = [(c, o) for (c, o, v, _) in judged if v == "ok" and o["r"]["k"] == "ok" and len(o["r"]["body"]) >= 2]
    if not oks:
        print("selftest: no Ok outcome to corrupt"); return 1
    fails = []
    # 1. flip an allowed-outcome set: remove the returned body from every allowed shape
    c, o = oks[0]
    c2 = dict(c, entries=[dict(e, bodies=[b for b in e["bodies"] if b != o["r"]["body"]]) for e in c["entries"]])
    if judge(c2, o["r"], open_devs)[0] != "violation":
        fails.append("allowed set without the returned body not detected")
    # 2. expected status flipped
    c3 = dict(c, entries=[dict(e, status=e["status"] + 1) for e in c["entries"]])
    if judge(c3, o["r"], open_devs)[0] != "violation":
        fails.append("flipped expected status not detected")
    # 3. corrupt a recorded body (drop its last byte / change a byte): TLC must reject the record
    for mut in (lambda b: b[:-1], lambda b: [b[0] ^ 1] + b[1:]):
        c4, o4 = next(((c, o) for (c, o) in oks if not c["o"]["clnums"] or min(c["o"]["clnums"]) >= len(c["o"]["body"])), oks[0])
        bad = {"o": c4["o"], "r": dict(o4["r"], body=mut(o4["r"]["body"]))}
        acc, _, _, _ = tlc_judge(ctx, [{"o": c4["o"], "r": o4["r"]}, bad], open_devs, "selftest")
        if acc:
            fails.append("corrupted recorded body accepted by HttpFramingTrace")
        if judge(c4, bad["r"], open_devs)[0] != "violation":
            fails.append("corrupted body accepted by the driver")
    # 4. a dropped header, a hang and a panic are rejected
    withh = next(((c, o) for (c, o) in oks if o["r"]["hdrs"]), None)
    if withh:
        c5, o5 = withh
        if judge(c5, dict(o5["r"], hdrs=o5["r"]["hdrs"][:-1]), open_devs)[0] != "violation":
            fails.append("dropped header not detected")
    for k in ("hang", "panic"):
        if judge(c, dict(o["r"], k=k), open_devs)[0] != "violation":
            fails.append(f"{k} not detected")
        acc, _, _, _ = tlc_judge(ctx, [{"o": c["o"], "r": dict(o["r"], k=k)}], open_devs, "selftest")
        if acc:
            fails.append(f"{k} accepted by HttpFramingTrace")
    # 5. the known-finding classification is not a mute: with the finding closed the same outcome is a violation
    kn = [(c, o, info) for (c, o, v, info) in judged if v == "known"]
    if kn:
        c6, o6, info = kn[0]
        if judge(c6, o6["r"], set())[0] != "violation":
            fails.append("known-finding shape not a violation when the finding is closed")
        acc, _, _, _ = tlc_judge(ctx, [{"o": c6["o"], "r": o6["r"]}], set(), "selftest")
        if acc:
            fails.append("known-finding shape accepted by HttpFramingTrace with no deviation enabled")
    elif open_devs:
        print("selftest note: findings are open but no case manifested them")
    # 6. a short body on a synthetic observation (independent of the state of /repo)
    syn_o = dict(oks[0][0]["o"], clnums=[len(oks[0][0]["o"]["body"]) + 1], clbad=False)
    acc, _, _, _ = tlc_judge(ctx, [{"o": syn_o, "r": oks[0][1]["r"]}], set(), "selftest")
    if acc:
        fails.append("Ok shorter than the declared Content-Length accepted by HttpFramingTrace")
    for f in fails:
        print("selftest FAILED:", f)
    if not fails:
        print(f"selftest ok: corrupted allowed sets / bodies / headers / outcome classes were all rejected ({len(cases)} cases replayed)")
    return 1 if fails else 0
